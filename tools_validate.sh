#!/bin/sh
# Validate MANIFEST.json and evidence/*.json against the schemas (needs the tooling venv).
cd "$(dirname "$0")"
python3-vt - <<'PY'
import json, jsonschema, glob
jsonschema.validate(json.load(open('MANIFEST.json')), json.load(open('/root/.vp/MANIFEST.schema.json')))
for f in sorted(glob.glob('evidence/*.json')):
    jsonschema.validate(json.load(open(f)), json.load(open('/root/.vp/EVIDENCE.schema.json')))
    print('ok', f)
print('manifest ok')
PY
