// Enumeration front end (see stats.h): byte strings derived from (VERIF_SEED, case
// index) are fed to the fuzz entry point; --replay FILE runs one saved case.
#include "stats.h"
#include <cstdio>
#include <cstdlib>
#include <cstring>
#include <string>

namespace vp {

static uint64_t splitmix(uint64_t& x) { uint64_t z = (x += 0x9e3779b97f4a7c15ull); z = (z ^ (z >> 30)) * 0xbf58476d1ce4e5b9ull; z = (z ^ (z >> 27)) * 0x94d049bb133111ebull; return z ^ (z >> 31); }

int enum_main(int argc, char** argv) {
  if (argc >= 3 && std::string(argv[1]) == "--replay") {
    FILE* f = fopen(argv[2], "rb"); if (!f) { fprintf(stderr, "cannot open %s\n", argv[2]); return 2; }
    std::string b; char buf[4096]; size_t n; while ((n = fread(buf, 1, sizeof buf, f)) > 0) b.append(buf, n); fclose(f);
    LLVMFuzzerTestOneInput((const uint8_t*)b.data(), b.size());
    stats_flush();
    return 0;
  }
  if (argc < 5) { fprintf(stderr, "usage: %s <ncases> <len> [<first>] <shard> <nshards> | --replay FILE\n", argv[0]); return 2; }
  long ncases = atol(argv[1]); size_t len = (size_t)atol(argv[2]); long first = 0; int a = 3;
  if (argc >= 6) first = atol(argv[a++]);   // optional: index of the first case (cases first..ncases-1)
  long shard = atol(argv[a]), nshards = atol(argv[a + 1]);
  const char* sv = getenv("VERIF_SEED"); uint64_t seed = sv ? strtoull(sv, nullptr, 10) : 1;
  for (long i = first + shard; i < ncases; i += nshards) {
    uint64_t st = seed * 0x100000001b3ull + (uint64_t)i * 0x9e3779b97f4a7c15ull + 12345;
    std::string b(len, '\0');
    for (size_t k = 0; k < len; k += 8) { uint64_t v = splitmix(st); for (size_t j = 0; j < 8 && k + j < len; j++) b[k + j] = (char)(v >> (8 * j)); }
    set_case_blob(b); persist_case_blob();
    LLVMFuzzerTestOneInput((const uint8_t*)b.data(), b.size());
  }
  stats_flush();
  remove_case_blob();
  return 0;
}

}  // namespace vp
