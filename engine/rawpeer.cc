#include "rawpeer.h"
extern "C" {
#include <dbus/dbus-transport.h>
#include <dbus/dbus-transport-socket.h>
#include <dbus/dbus-connection-internal.h>
}
#include <cerrno>
#include <cstring>
#include <fcntl.h>
#include <sys/socket.h>
#include <unistd.h>

namespace vp {

RawPeer::~RawPeer() { close_peer(); }
void RawPeer::close_peer() { if (fd >= 0) { close(fd); fd = -1; } }

void pump_connection(DBusConnection* c, int max_iter) {
  for (int i = 0; i < max_iter; i++) {
    if (!dbus_connection_read_write(c, 0)) { while (dbus_connection_dispatch(c) == DBUS_DISPATCH_DATA_REMAINS) {} return; }
    int n = 0;
    while (dbus_connection_get_dispatch_status(c) == DBUS_DISPATCH_DATA_REMAINS && n++ < 1000) dbus_connection_dispatch(c);
    // one more non-blocking I/O round to flush anything the dispatch produced
    dbus_connection_read_write(c, 0);
    if (dbus_connection_get_dispatch_status(c) != DBUS_DISPATCH_DATA_REMAINS && !dbus_connection_has_messages_to_send(c) && i >= 2) return;
  }
}

DBusConnection* RawPeer::connect(bool agree_unix_fd, bool virtual_clock) {
  if (virtual_clock) vclock_activate();
  int sp[2];
  if (socketpair(AF_UNIX, SOCK_STREAM | SOCK_CLOEXEC, 0, sp) < 0) return nullptr;
  fd = sp[0];
  fcntl(fd, F_SETFL, fcntl(fd, F_GETFL) | O_NONBLOCK);
  fcntl(sp[1], F_SETFL, fcntl(sp[1], F_GETFL) | O_NONBLOCK);
  DBusSocket s; s.fd = sp[1];
  DBusString addr; _dbus_string_init_const(&addr, "unix:path=/vp/socketpair");
  DBusTransport* t = _dbus_transport_new_for_socket(s, nullptr, &addr);
  if (!t) { close(sp[1]); return nullptr; }
  DBusConnection* c = _dbus_connection_new_for_transport(t);
  _dbus_transport_unref(t);
  if (!c) return nullptr;
  dbus_connection_set_exit_on_disconnect(c, FALSE);
  // handshake: client sends \0AUTH EXTERNAL <hex uid>\r\n ; we answer OK <guid>; optional NEGOTIATE_UNIX_FD; BEGIN
  std::string text; bool began = false;
  for (int i = 0; i < 200 && !began; i++) {
    dbus_connection_read_write(c, 0);
    char buf[4096]; ssize_t n = recv(fd, buf, sizeof buf, MSG_DONTWAIT);
    if (n > 0) text.append(buf, n);
    size_t e;
    while ((e = text.find("\r\n")) != std::string::npos) {
      std::string line = text.substr(0, e); text.erase(0, e + 2);
      if (!line.empty() && line[0] == '\0') line.erase(0, 1);
      std::string reply;
      if (line.rfind("AUTH EXTERNAL", 0) == 0) reply = "OK 0123456789abcdef0123456789abcdef\r\n";
      else if (line.rfind("AUTH", 0) == 0) reply = "REJECTED EXTERNAL\r\n";
      else if (line == "NEGOTIATE_UNIX_FD") reply = agree_unix_fd ? "AGREE_UNIX_FD\r\n" : "ERROR\r\n";
      else if (line == "BEGIN") { began = true; break; }
      else reply = "ERROR\r\n";
      if (!reply.empty()) { ssize_t w = send(fd, reply.data(), reply.size(), MSG_NOSIGNAL); (void)w; }
    }
  }
  inbuf = text;   // anything after BEGIN already belongs to the message stream
  if (!began) { dbus_connection_close(c); dbus_connection_unref(c); return nullptr; }
  pump_connection(c, 5);
  return c;
}

void RawPeer::write_bytes(const std::string& b) {
  size_t off = 0;
  while (off < b.size() && fd >= 0) {
    ssize_t n = send(fd, b.data() + off, b.size() - off, MSG_NOSIGNAL);
    if (n > 0) off += n; else if (errno == EINTR) continue; else break;
  }
}

std::vector<RecvFrame> RawPeer::read_frames() {
  std::vector<RecvFrame> out;
  while (fd >= 0) {
    char buf[65536]; ssize_t n = recv(fd, buf, sizeof buf, MSG_DONTWAIT);
    if (n > 0) { inbuf.append(buf, n); continue; }
    if (n == 0) eof = true;
    else if (errno == EINTR) continue;
    else if (errno != EAGAIN && errno != EWOULDBLOCK) eof = true;
    break;
  }
  while (inbuf.size() >= 16) {
    bool bad; size_t total = declared_length((const uint8_t*)inbuf.data(), inbuf.size(), &bad);
    RecvFrame fr;
    if (bad) { fr.valid = false; fr.why = "frame whose fixed header fails the sanity check"; fr.bytes = inbuf; inbuf.clear(); out.push_back(fr); break; }
    if (total > inbuf.size()) break;
    fr.bytes = inbuf.substr(0, total); inbuf.erase(0, total);
    Verdict v = decode_frame((const uint8_t*)fr.bytes.data(), fr.bytes.size(), -1, &fr.msg, &fr.why);
    if (v == Verdict::Invalid) fr.valid = false;
    out.push_back(fr);
  }
  return out;
}

}  // namespace vp
