// Counters, distinct-case set, sample reservoir and violation reporting shared
// by all targets.  Everything is written to $VP_STATS_DIR (one file set per
// process) and merged by the driver into /verif/evidence/<id>.json.
#pragma once
#include <cstdint>
#include <string>

namespace vp {

void stats_init(const char* property);          // idempotent; reads VP_STATS_DIR, VP_KF
void stats_exec();                               // one evaluation
void stats_class(const char* name, uint64_t n = 1);
void stats_class(const std::string& name, uint64_t n = 1);
// record a non-trivial case by the hash of its canonical decoded form
void stats_nontrivial(uint64_t hash);
// offer a pretty-printed case for the sample reservoir (kept: the 10 smallest hash values -> deterministic)
void stats_sample(uint64_t hash, const std::string& text);
bool stats_want_sample(uint64_t hash);          // cheap pre-check so callers can skip building the text
void stats_flush();

// Known findings: ids listed as "open" for this property in known-findings.json
// (passed by the driver in VP_KF).  A case matching an open finding is excluded
// by construction and counted; if the id is not open it is a violation.
bool kf_open(const char* id);
void kf_hit(const char* id);

// Report an oracle violation: writes the report, flushes statistics, traps (so
// libFuzzer keeps the input as crash-<sha1>).
[[noreturn]] void violation(const char* kind, const std::string& report);

uint64_t executions();

// Replayable form of the case being checked (for non-libFuzzer front ends):
// violation() writes it to $VP_STATS_DIR/case.<pid>.bin.
void set_case_blob(const std::string& blob);

}  // namespace vp

// Enumeration front end shared by targets whose cases are too slow for libFuzzer's
// mutation loop to pay off: `<bin>_enum <ncases> <len> <shard> <nshards>` runs the
// fuzz entry point on ncases byte strings derived from (VERIF_SEED, case index) by
// splitmix64; `<bin>_enum --replay FILE` runs it on a saved case.  The case bytes
// are written to VP_STATS_DIR/case.<pid>.bin before each case so that an abort
// (assertion, sanitizer) leaves its input behind.
extern "C" int LLVMFuzzerTestOneInput(const uint8_t* data, size_t size);
namespace vp { int enum_main(int argc, char** argv); void persist_case_blob(); void remove_case_blob(); }
