// Reference model of the message bus, written from doc/dbus-specification.xml
// ("Message Bus Specification") and doc/dbus-daemon.1.xml.in.  Value-semantic
// (copyable) so that batches can be checked by serialisation search.
// Rule tags: [S] specification, [M] dbus-daemon(1), [D] documented in code
// comments / API docs, [U] unspecified (no verdict).
#pragma once
#include <map>
#include <set>
#include <string>
#include <vector>
#include "wire.h"
#include "matchmodel.h"

namespace vp {

extern const char* const BUS_NAME;   // org.freedesktop.DBus
extern const char* const BUS_PATH;
extern const char* const BUS_IFACE;

// An expected frame at some client.
struct Exp {
  uint8_t type = 0;
  std::string sender, dest, path, iface, member, errname;
  bool check_dest = true;
  uint32_t reply_serial = 0;
  std::vector<Value> body;
  bool any_body = false;       // body not predicted (e.g. error message text)
  bool any_errname = false;    // any error name accepted
  bool optional = false;       // [U] the frame may or may not appear (at most once)
  bool full = false;           // compare the whole frame with `whole` (forwarded client messages): type, flags, serial, all fields as a set, body
  Msg whole;
  std::string show() const;
};
// "" if the frame is what exp describes
std::string frame_vs_exp(const Msg& got, const Exp& e);

Exp exp_forward(const Msg& stamped);
Exp exp_reply(const std::string& dest, uint32_t rs, const std::vector<Value>& body);
Exp exp_error(const std::string& dest, uint32_t rs, const std::string& name);
Exp exp_bus_signal(const std::string& member, const std::string& dest, const std::vector<Value>& body);

struct NameOwner { int conn; bool allow_repl; bool dnq; };

enum { RN_PRIMARY = 1, RN_IN_QUEUE = 2, RN_EXISTS = 3, RN_ALREADY = 4 };
enum { RL_RELEASED = 1, RL_NON_EXISTENT = 2, RL_NOT_OWNER = 3 };

typedef std::map<int, std::vector<Exp>> Out;   // connection index -> expected frames, in order

struct MConn {
  bool alive = false;        // socket open and authenticated
  bool registered = false;   // Hello done
  bool monitor = false;
  std::string unique;
  std::vector<MatchRule> rules;          // match rules currently held (multiset, insertion order)
};

struct PendingReply { int caller, callee; uint32_t serial; long t_added_ms; };

class BusModel {
 public:
  std::vector<PendingReply> pending;                  // [M] reply slots: (caller, callee, serial)
  std::vector<Exp> emitted;                           // every frame the bus itself originated since the caller last cleared this (each broadcast once): what an unfiltered monitor must see
  void emit_to(int c, const Exp& e, Out& out) { out[c].push_back(e); emitted.push_back(e); }
  int max_replies = 1 << 30;                          // max_replies_per_connection
  long reply_timeout_ms = -1;                         // -1: never
  long now_ms = 0;                                    // virtual time
  bool replies_must_be_requested = false;             // policy admits only requested replies (system bus default)
  // advance virtual time: expired slots yield NoReply errors to their callers  [M reply_timeout]
  void advance(long ms, Out& out);
  int pending_of(int caller) const;
  std::string fingerprint() const;                    // canonical text of the whole state (for de-duplicating candidate states)
  std::vector<MConn> conns;
  std::map<std::string, std::vector<NameOwner>> q;   // well-known name -> owner queue (head = primary)
  int max_names = 1 << 30;                             // max_names_per_connection

  int add_conn() { conns.push_back(MConn()); conns.back().alive = true; return (int)conns.size() - 1; }
  // Hello succeeded and returned `unique`: NameOwnerChanged(unique,"",unique) to watchers, NameAcquired(unique) + reply to c.
  void hello(int c, const std::string& unique, uint32_t serial, Out& out);
  // Specification's RequestName rules.  Returns the reply code or 0 when an error is expected (then *err is its name).
  uint32_t request_name(int c, const std::string& name, uint32_t flags, uint32_t serial, Out& out, std::string* err);
  uint32_t release_name(int c, const std::string& name, uint32_t serial, Out& out, std::string* err);
  void disconnect(int c, Out& out);
  // BecomeMonitor succeeded: to everybody else exactly a disconnect; the bus additionally tells the connection itself
  // that it lost every name it was primary owner of, its unique name included [D bus_connection_be_monitor].
  void become_monitor(int c, Out& out);
  int names_held(int c) const;
  // Match rules.
  void add_match(int c, const MatchRule& r) { conns[c].rules.push_back(r); }
  bool remove_match(int c, const MatchRule& r);     // removes one rule equal to r; false if none
  // Recipients of a message by match rules (excluding `addressed`, monitors and dead connections): each at most once.
  std::vector<int> rule_recipients(const Msg& stamped, int sender_conn /* -1 = the bus */, int addressed) const;
  // Frame as the bus forwards it: unknown fields and CONTAINER_INSTANCE stripped, SENDER overwritten.   [property C03]
  Msg stamp(const Msg& m, int sender_conn) const;
  // A signal originated by the bus itself, delivered by match rules (dest == "") or unicast.
  void bus_signal(const std::string& member, const std::string& dest, const std::vector<Value>& body, Out& out);
  MatchCtx ctx_for(int sender_conn, int addressed) const;
  // Routing of a message written by registered client c that is not addressed to the bus driver.
  // Appends expectations: the addressed recipient's copy, eavesdroppers'/match-rule recipients' copies, and for an
  // undeliverable method call exactly one error to the sender.  [S Message Bus Message Routing]
  void route(int c, const Msg& m, Out& out);
  // [U] Eavesdropping is optional behaviour ("the bus may..."): connections holding an eavesdrop='true' rule may
  // additionally see (a) a call another client addressed to the bus driver and (b) unicast frames the bus itself
  // originates for other clients (replies, NameAcquired/NameLost).  Adds those as *optional* expectations.
  void add_optional_eavesdrop(Out& out, int caller, const Msg* driver_call) const;
  // queries
  int primary(const std::string& name) const;            // -1 if none (well-known or unique names)
  std::vector<std::string> queued_owners(const std::string& name) const;
  std::vector<std::string> list_names() const;          // sorted
  int conn_by_unique(const std::string& u) const;
  std::string owner_unique(const std::string& name) const;   // "" if none
 private:
  void noc(const std::string& name, const std::string& oldo, const std::string& newo, Out& out);
  void remove_owner_entry(const std::string& name, int c, Out& out, bool send_lost_to_c);
};

}  // namespace vp
