#include "libwalk.h"
#include <cstring>
#include <unistd.h>

namespace vp {

bool walk_values(DBusMessageIter* it, std::vector<Value>& out, std::string* why, int depth) {
  int t;
  int guard = 0;
  while ((t = dbus_message_iter_get_arg_type(it)) != DBUS_TYPE_INVALID) {
    if (++guard > (1 << 24)) { *why = "iterator does not terminate"; return false; }
    Value v;
    char* isig = dbus_message_iter_get_signature(it);
    std::string sig_here = isig ? isig : "";
    dbus_free(isig);
    if (dbus_type_is_fixed(t)) {
      DBusBasicValue bv; memset(&bv, 0, sizeof bv);
      dbus_message_iter_get_basic(it, &bv);
      v.t = (char)t;
      switch (t) {
        case 'y': v.u = bv.byt; break;
        case 'n': case 'q': v.u = bv.u16; break;
        case 'b': case 'i': case 'u': case 'h': v.u = bv.u32; break;
        default: v.u = bv.u64; break;
      }
      if (t == 'h') {
        // get_basic on a UNIX_FD dup()s the descriptor (or yields -1): close it; its numeric value is not wire data
        if ((int)bv.i32 >= 0) close((int)bv.i32);
        v.u = 0;
      }
    } else if (t == 's' || t == 'o' || t == 'g') {
      const char* s = nullptr;
      dbus_message_iter_get_basic(it, &s);
      v.t = (char)t; v.s = s ? s : "";
    } else if (t == DBUS_TYPE_ARRAY) {
      v.t = 'a';
      DBusMessageIter sub;
      dbus_message_iter_recurse(it, &sub);
      if (sig_here.size() < 2 || sig_here[0] != 'a') { *why = "iter_get_signature of array = '" + sig_here + "'"; return false; }
      v.s = sig_here.substr(1);
      int et = dbus_message_iter_get_element_type(it);
      char want_et = v.s[0] == '(' ? 'r' : v.s[0] == '{' ? 'e' : v.s[0];
      if (et != want_et) { *why = "get_element_type disagrees with get_signature"; return false; }
      int count = dbus_message_iter_get_element_count(it);
      if (dbus_type_is_fixed(et) && et != 'h' && (size_t)count * fixed_size((char)et) > (1u << 18)) {
        DBusMessageIter sub2; dbus_message_iter_recurse(it, &sub2);
        const void* p = nullptr; int n = -1;
        dbus_message_iter_get_fixed_array(&sub2, &p, &n);
        if (n != count) { *why = "get_fixed_array n_elements disagrees with get_element_count"; return false; }
        int sz = fixed_size((char)et);
        uint64_t h = 1469598103934665603ull;
        for (int i = 0; i < n; i++) { uint64_t x = 0; memcpy(&x, (const char*)p + (size_t)i * sz, sz); h = (h ^ x) * 1099511628211ull; }
        v.u = h; v.big = (uint64_t)n;
        out.push_back(std::move(v));
        bool hn = dbus_message_iter_has_next(it); bool mv = dbus_message_iter_next(it);
        if (hn != mv) { *why = "has_next and next disagree"; return false; }
        continue;
      }
      if (!walk_values(&sub, v.kids, why, depth + 1)) return false;
      if (count != (int)v.kids.size()) { *why = "get_element_count=" + std::to_string(count) + " but walk found " + std::to_string(v.kids.size()); return false; }
      if (dbus_type_is_fixed(et) && et != 'h') {
        DBusMessageIter sub2; dbus_message_iter_recurse(it, &sub2);
        const void* p = nullptr; int n = -1;
        dbus_message_iter_get_fixed_array(&sub2, &p, &n);
        if (n != (int)v.kids.size()) { *why = "get_fixed_array n_elements disagrees with walk"; return false; }
        int sz = fixed_size((char)et);
        for (int i = 0; i < n; i++) {
          uint64_t x = 0; memcpy(&x, (const char*)p + (size_t)i * sz, sz);
          if (x != v.kids[i].u) { *why = "get_fixed_array element differs from get_basic"; return false; }
        }
      }
    } else if (t == DBUS_TYPE_STRUCT || t == DBUS_TYPE_DICT_ENTRY || t == DBUS_TYPE_VARIANT) {
      v.t = t == DBUS_TYPE_STRUCT ? '(' : t == DBUS_TYPE_DICT_ENTRY ? '{' : 'v';
      DBusMessageIter sub;
      dbus_message_iter_recurse(it, &sub);
      if (!walk_values(&sub, v.kids, why, depth + 1)) return false;
      if (t == DBUS_TYPE_VARIANT && v.kids.size() != 1) { *why = "variant does not contain exactly one value"; return false; }
    } else { *why = "unknown arg type " + std::to_string(t); return false; }
    if (t != 'h' && v.sig() != sig_here) { *why = "iter_get_signature '" + sig_here + "' != walked signature '" + v.sig() + "'"; return false; }
    out.push_back(std::move(v));
    bool had_next = dbus_message_iter_has_next(it);
    bool moved = dbus_message_iter_next(it);
    if (had_next != moved) { *why = "has_next and next disagree"; return false; }
  }
  return true;
}

bool lib_to_msg(DBusMessage* m, Msg& out, std::string* why) {
  out = Msg();
  out.type = (uint8_t)dbus_message_get_type(m);
  out.serial = dbus_message_get_serial(m);
  out.flags = (dbus_message_get_no_reply(m) ? 1 : 0) | (dbus_message_get_auto_start(m) ? 0 : 2) | (dbus_message_get_allow_interactive_authorization(m) ? 4 : 0);
  auto S = [&](uint8_t code, char t, const char* s, bool has) { if (s) { Field f; f.code = code; f.v = Value::str(t, s); out.fields.push_back(f); } if (has != (s != nullptr)) *why = "has_* and get_* disagree for field " + std::to_string(code); };
  S(F_PATH, 'o', dbus_message_get_path(m), dbus_message_get_path(m) != nullptr);
  S(F_INTERFACE, 's', dbus_message_get_interface(m), dbus_message_get_interface(m) != nullptr);
  S(F_MEMBER, 's', dbus_message_get_member(m), dbus_message_get_member(m) != nullptr);
  S(F_ERROR_NAME, 's', dbus_message_get_error_name(m), dbus_message_get_error_name(m) != nullptr);
  if (dbus_message_get_reply_serial(m)) { Field f; f.code = F_REPLY_SERIAL; f.v = Value::basic('u', dbus_message_get_reply_serial(m)); out.fields.push_back(f); }
  S(F_DESTINATION, 's', dbus_message_get_destination(m), dbus_message_get_destination(m) != nullptr);
  S(F_SENDER, 's', dbus_message_get_sender(m), dbus_message_get_sender(m) != nullptr);
  const char* sig = dbus_message_get_signature(m);
  if (sig && *sig) { Field f; f.code = F_SIGNATURE; f.v = Value::str('g', sig); out.fields.push_back(f); }
  S(F_CONTAINER_INSTANCE, 'o', dbus_message_get_container_instance(m), dbus_message_get_container_instance(m) != nullptr);
  if (!why->empty()) return false;
  DBusMessageIter it;
  if (dbus_message_iter_init(m, &it)) {
    if (!walk_values(&it, out.body, why)) return false;
  }
  return true;
}

static void strip_h_(Value& v) { if (v.t == 'h') v.u = 0; for (auto& k : v.kids) strip_h_(k); }

std::string diff_msgs(const Msg& lib, const Msg& o) {
  if (lib.type != o.type) return "type differs";
  if (lib.serial != o.serial) return "serial differs";
  if ((lib.flags & 7) != (o.flags & 7)) return "flags differ";
  for (uint8_t code = 1; code <= 10; code++) {
    if (code == F_UNIX_FDS) continue;
    const Value* a = lib.field(code); const Value* b = o.field(code);
    if (code == F_SIGNATURE) { std::string sa = a ? a->s : "", sb = b ? b->s : ""; if (sa != sb) return "signature differs: lib='" + sa + "' oracle='" + sb + "'"; continue; }
    if ((a != nullptr) != (b != nullptr)) return "presence of header field " + std::to_string(code) + " differs";
    if (a && !(*a == *b)) return "header field " + std::to_string(code) + " differs: lib=" + a->show() + " oracle=" + b->show();
  }
  if (lib.body.size() != o.body.size()) return "number of body values differs: lib=" + std::to_string(lib.body.size()) + " oracle=" + std::to_string(o.body.size());
  for (size_t i = 0; i < o.body.size(); i++) {
    // 'h' values: indices are wire data for the oracle but become dup'd descriptors in the API: compare type only
    Value ob = o.body[i]; strip_h_(ob);
    if (!(lib.body[i] == ob)) {
      return "body value " + std::to_string(i) + " differs: lib=" + lib.body[i].show() + " oracle=" + o.body[i].show();
    }
  }
  return "";
}

bool lib_marshal(DBusMessage* m, std::string& out) {
  char* buf = nullptr; int len = 0;
  if (!dbus_message_marshal(m, &buf, &len)) return false;
  out.assign(buf, len);
  dbus_free(buf);
  return true;
}

bool lib_append(DBusMessageIter* it, const Value& v, int use_fixed) {
  if (is_fixed_type(v.t)) {
    DBusBasicValue bv; memset(&bv, 0, sizeof bv);
    switch (v.t) { case 'y': bv.byt = (unsigned char)v.u; break; case 'n': case 'q': bv.u16 = (dbus_uint16_t)v.u; break; case 'x': case 't': case 'd': bv.u64 = v.u; break; default: bv.u32 = (dbus_uint32_t)v.u; }
    return dbus_message_iter_append_basic(it, v.t, &bv);
  }
  if (v.t == 's' || v.t == 'o' || v.t == 'g') { const char* s = v.s.c_str(); return dbus_message_iter_append_basic(it, v.t, &s); }
  DBusMessageIter sub;
  if (v.t == 'a') {
    if (!dbus_message_iter_open_container(it, DBUS_TYPE_ARRAY, v.s.c_str(), &sub)) return false;
    if (use_fixed && v.s.size() == 1 && is_fixed_type(v.s[0]) && v.s[0] != 'h' && !v.kids.empty()) {
      int sz = fixed_size(v.s[0]);
      // mode 1: one block.  mode 2: the documented mixed use - the first third element by element, then two blocks, then an empty block
      size_t n = v.kids.size(), done = 0;
      std::vector<size_t> blocks;
      if (use_fixed == 2) {
        size_t a = n / 3;
        for (; done < a; done++) if (!lib_append(&sub, v.kids[done], 0)) { dbus_message_iter_abandon_container(it, &sub); return false; }
        size_t b = (n - a) / 2; blocks = {b, n - a - b, 0};
      } else blocks = {n};
      for (size_t cnt : blocks) {
        std::string raw; for (size_t i = done; i < done + cnt; i++) raw.append((const char*)&v.kids[i].u, sz);  // little-endian host
        void* p = aligned_alloc(8, ((raw.size() + 7) & ~(size_t)7) + 8); memcpy(p, raw.data(), raw.size());   // aligned copy
        const void* cp = p;
        bool ok = dbus_message_iter_append_fixed_array(&sub, v.s[0], &cp, (int)cnt);
        free(p);
        if (!ok) { dbus_message_iter_abandon_container(it, &sub); return false; }
        done += cnt;
      }
    } else {
      for (auto& k : v.kids) if (!lib_append(&sub, k, use_fixed)) { dbus_message_iter_abandon_container(it, &sub); return false; }
    }
    return dbus_message_iter_close_container(it, &sub);
  }
  if (v.t == '(' || v.t == '{') {
    if (!dbus_message_iter_open_container(it, v.t == '(' ? DBUS_TYPE_STRUCT : DBUS_TYPE_DICT_ENTRY, nullptr, &sub)) return false;
    for (auto& k : v.kids) if (!lib_append(&sub, k, use_fixed)) { dbus_message_iter_abandon_container(it, &sub); return false; }
    return dbus_message_iter_close_container(it, &sub);
  }
  if (v.t == 'v') {
    std::string s = v.kids[0].sig();
    if (!dbus_message_iter_open_container(it, DBUS_TYPE_VARIANT, s.c_str(), &sub)) return false;
    if (!lib_append(&sub, v.kids[0], use_fixed)) { dbus_message_iter_abandon_container(it, &sub); return false; }
    return dbus_message_iter_close_container(it, &sub);
  }
  return false;
}

}  // namespace vp
