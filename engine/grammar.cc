// See grammar.h.  Every rule cites the specification text it encodes.
#include "grammar.h"

namespace vp {

static bool alpha_(unsigned char c) { return (c >= 'A' && c <= 'Z') || (c >= 'a' && c <= 'z') || c == '_'; }
static bool digit_(unsigned char c) { return c >= '0' && c <= '9'; }

// RFC 3629 + SPEC "STRING: ... valid UTF-8 ... must not contain NUL"; the
// specification explicitly permits noncharacters (U+FFFE etc.).
bool is_utf8(const std::string& s) {
  size_t i = 0, n = s.size();
  while (i < n) {
    unsigned char c = s[i];
    if (c == 0) return false;
    if (c < 0x80) { i++; continue; }
    int len; uint32_t cp, min;
    if (c >= 0xC2 && c <= 0xDF) { len = 2; cp = c & 0x1F; min = 0x80; }
    else if (c >= 0xE0 && c <= 0xEF) { len = 3; cp = c & 0x0F; min = 0x800; }
    else if (c >= 0xF0 && c <= 0xF4) { len = 4; cp = c & 0x07; min = 0x10000; }
    else return false;  // continuation byte as lead, C0/C1 (over-long), F5..FF
    if (i + len > n) return false;
    for (int k = 1; k < len; k++) {
      unsigned char d = s[i + k];
      if ((d & 0xC0) != 0x80) return false;
      cp = (cp << 6) | (d & 0x3F);
    }
    if (cp < min) return false;                    // over-long
    if (cp >= 0xD800 && cp <= 0xDFFF) return false; // surrogates
    if (cp > 0x10FFFF) return false;
    i += len;
  }
  return true;
}

// SPEC Valid Object Paths: begins with '/', elements [A-Za-z0-9_], no empty
// element, no trailing '/' unless the path is the root.  No length limit.
bool is_object_path(const std::string& s) {
  if (s.empty() || s[0] != '/') return false;
  if (s.size() == 1) return true;
  size_t i = 1;
  size_t elem = 0;
  for (; i < s.size(); i++) {
    unsigned char c = s[i];
    if (c == '/') { if (elem == 0) return false; elem = 0; }
    else if (alpha_(c) || digit_(c)) elem++;
    else return false;
  }
  return elem > 0;
}

// Dotted names.  allow_hyphen: bus names.  digits_first: unique names.
static bool dotted_(const std::string& s, size_t start, bool allow_hyphen, bool digits_first, size_t min_elems) {
  size_t elems = 0, elem = 0;
  if (start >= s.size()) return false;
  for (size_t i = start; i < s.size(); i++) {
    unsigned char c = s[i];
    if (c == '.') { if (elem == 0) return false; elems++; elem = 0; continue; }
    bool ok = alpha_(c) || (allow_hyphen && c == '-') || (digit_(c) && (elem > 0 || digits_first));
    if (!ok) return false;
    elem++;
  }
  if (elem == 0) return false;
  elems++;
  return elems >= min_elems;
}

// SPEC Interface names: >=2 elements, [A-Za-z0-9_], no leading digit, <=255.
bool is_interface(const std::string& s) {
  if (s.empty() || s.size() > 255) return false;
  return dotted_(s, 0, false, false, 2);
}
// SPEC Error names: same restrictions as interface names.
bool is_error_name(const std::string& s) { return is_interface(s); }

// SPEC Member names: [A-Za-z0-9_], no leading digit, no '.', >=1 char, <=255.
bool is_member(const std::string& s) {
  if (s.empty() || s.size() > 255) return false;
  for (size_t i = 0; i < s.size(); i++) {
    unsigned char c = s[i];
    if (!(alpha_(c) || (digit_(c) && i > 0))) return false;
  }
  return true;
}

// SPEC Bus names: unique names begin with ':'; >=2 elements each >=1 char of
// [A-Za-z0-9_-]; only elements of unique names may begin with a digit; <=255.
bool is_unique_name(const std::string& s) {
  if (s.size() < 2 || s.size() > 255 || s[0] != ':') return false;
  return dotted_(s, 1, true, true, 2);
}
bool is_wellknown_name(const std::string& s) {
  if (s.empty() || s.size() > 255 || s[0] == ':') return false;
  return dotted_(s, 0, true, false, 2);
}
bool is_bus_name(const std::string& s) { return is_unique_name(s) || is_wellknown_name(s); }

bool unique_name_short_form(const std::string& s) {
  if (s.empty() || s.size() > 255 || s[0] != ':') return false;
  if (is_unique_name(s)) return false;
  // what libdbus 1.13.18 accepts: after ':' any sequence of [A-Za-z0-9_-] and
  // '.', where '.' is not followed by '.' or end.  (Only used to classify the
  // known finding, never to decide validity.)
  for (size_t i = 1; i < s.size(); i++) {
    unsigned char c = s[i];
    if (c == '.') {
      if (i + 1 >= s.size()) return false;
      unsigned char d = s[i + 1];
      if (!(alpha_(d) || digit_(d) || d == '-')) return false;
    } else if (!(alpha_(c) || digit_(c) || c == '-')) return false;
  }
  return true;
}

// SPEC match rule arg0namespace: "a bus name or interface name prefix":
// like a well-known bus name but a single element is permitted.
bool is_bus_namespace(const std::string& s) {
  if (s.empty() || s.size() > 255 || s[0] == ':') return false;
  return dotted_(s, 0, true, false, 1);
}

bool is_basic_type(char c) {
  switch (c) { case 'y': case 'b': case 'n': case 'q': case 'i': case 'u': case 'x': case 't':
    case 'd': case 's': case 'o': case 'g': case 'h': return true; default: return false; }
}
bool is_fixed_type(char c) { return is_basic_type(c) && c != 's' && c != 'o' && c != 'g'; }
int fixed_size(char c) {
  switch (c) { case 'y': return 1; case 'n': case 'q': return 2; case 'b': case 'i': case 'u': case 'h': return 4;
    case 'x': case 't': case 'd': return 8; default: return 0; }
}
int type_alignment(char c) {
  switch (c) {
    case 'y': case 'g': case 'v': return 1;
    case 'n': case 'q': return 2;
    case 'b': case 'i': case 'u': case 'h': case 's': case 'o': case 'a': return 4;
    case 'x': case 't': case 'd': case '(': case '{': case 'r': case 'e': return 8;
    default: return 1;
  }
}

size_t sct_len(const std::string& s, size_t pos) {
  if (pos >= s.size()) return 0;
  char c = s[pos];
  if (is_basic_type(c) || c == 'v') return 1;
  if (c == 'a') { size_t l = sct_len(s, pos + 1); return l ? l + 1 : 0; }
  if (c == '(') {
    size_t i = pos + 1; size_t n = 0;
    while (i < s.size() && s[i] != ')') { size_t l = sct_len(s, i); if (!l) return 0; i += l; n++; }
    if (i >= s.size() || n == 0) return 0;
    return i + 1 - pos;
  }
  if (c == '{') {
    size_t i = pos + 1; size_t n = 0;
    while (i < s.size() && s[i] != '}') { size_t l = sct_len(s, i); if (!l) return 0; i += l; n++; }
    if (i >= s.size() || n != 2) return 0;
    if (!is_basic_type(s[pos + 1])) return 0;
    return i + 1 - pos;
  }
  return 0;
}

// Recursive descent with nesting depth of arrays and of structs (SPEC: "maximum
// depth of container type nesting is 32 array type codes and 32 open
// parentheses").  in_array: a dict entry is only allowed as an array element.
static thread_local bool g_consecutive_only = false;  // alternate reading of the array limit, see sig_array_depth_ambiguous
static size_t parse_sct_(const std::string& s, size_t pos, int adepth, int sdepth, bool elem_of_array, bool& ok) {
  if (pos >= s.size()) { ok = false; return 0; }
  char c = s[pos];
  if (is_basic_type(c) || c == 'v') return 1;
  if (c == 'a') {
    if (adepth + 1 > 32) { ok = false; return 0; }
    size_t l = parse_sct_(s, pos + 1, adepth + 1, sdepth, true, ok);
    if (!ok) return 0;
    return l + 1;
  }
  if (c == '(') {
    if (sdepth + 1 > 32) { ok = false; return 0; }
    size_t i = pos + 1, n = 0;
    while (i < s.size() && s[i] != ')') {
      size_t l = parse_sct_(s, i, g_consecutive_only ? 0 : adepth, sdepth + 1, false, ok);
      if (!ok) return 0;
      i += l; n++;
    }
    if (i >= s.size() || n == 0) { ok = false; return 0; }
    return i + 1 - pos;
  }
  if (c == '{') {
    if (!elem_of_array) { ok = false; return 0; }
    size_t i = pos + 1, n = 0;
    while (i < s.size() && s[i] != '}') {
      if (n == 0 && !is_basic_type(s[i])) { ok = false; return 0; }
      size_t l = parse_sct_(s, i, g_consecutive_only ? 0 : adepth, sdepth, false, ok);
      if (!ok) return 0;
      i += l; n++;
    }
    if (i >= s.size() || n != 2) { ok = false; return 0; }
    return i + 1 - pos;
  }
  ok = false;
  return 0;
}

bool is_signature(const std::string& s) {
  if (s.size() > 255) return false;
  size_t i = 0;
  while (i < s.size()) {
    bool ok = true;
    size_t l = parse_sct_(s, i, 0, 0, false, ok);
    if (!ok || l == 0) return false;
    i += l;
  }
  return true;
}

// UNSPEC zone: the specification limits "array type codes" nesting to 32; read
// as *nesting* a(a(a(...))) with 33 arrays is invalid, read as *consecutive*
// codes (libdbus) it is valid.  True iff the two readings disagree.
bool sig_array_depth_ambiguous(const std::string& s) {
  bool strict = is_signature(s);
  g_consecutive_only = true;
  bool loose = is_signature(s);
  g_consecutive_only = false;
  return strict != loose;
}

bool is_single_signature(const std::string& s) {
  if (s.empty() || s.size() > 255) return false;
  bool ok = true;
  size_t l = parse_sct_(s, 0, 0, 0, false, ok);
  return ok && l == s.size();
}

}  // namespace vp
