#include "stats.h"
#include <cstdio>
#include <cstdlib>
#include <cstring>
#include <map>
#include <set>
#include <string>
#include <unordered_set>
#include <vector>
#include <unistd.h>

namespace vp {
namespace {
std::string g_prop, g_dir;
uint64_t g_execs = 0;
std::map<std::string, uint64_t> g_classes;
std::unordered_set<uint64_t> g_distinct;
std::map<uint64_t, std::string> g_samples;  // smallest hashes
std::set<std::string> g_kf_open;
std::map<std::string, uint64_t> g_kf_hits;
bool g_inited = false;
std::string g_blob; bool g_have_blob = false;
const size_t kMaxDistinct = 6u << 20;
const size_t kSamples = 10;

std::string jesc(const std::string& s) {
  std::string o;
  for (unsigned char c : s) {
    if (c == '"' || c == '\\') { o += '\\'; o += (char)c; }
    else if (c < 0x20 || c >= 0x7f) { char b[8]; snprintf(b, sizeof b, "\\u%04x", c); o += b; }
    else o += (char)c;
  }
  return o;
}
bool g_full = true;
void atexit_flush() { g_full = true; stats_flush(); }
}  // namespace

static pid_t g_main_pid = 0;
void stats_flush();
void stats_init(const char* property) {
  if (g_inited) return;
  g_inited = true;
  g_main_pid = getpid();
  g_prop = property;
  const char* d = getenv("VP_STATS_DIR");
  g_dir = d ? d : "";
  const char* kf = getenv("VP_KF");
  if (kf) {
    std::string s = kf; size_t i = 0;
    while (i <= s.size()) { size_t j = s.find(',', i); if (j == std::string::npos) j = s.size(); if (j > i) g_kf_open.insert(s.substr(i, j - i)); i = j + 1; }
  }
  atexit(atexit_flush);
}

uint64_t executions() { return g_execs; }
void set_case_blob(const std::string& b) { g_blob = b; g_have_blob = true; }

void stats_exec() {
  g_execs++;
  if ((g_execs & 0x7ff) == 0) { g_full = (g_execs & 0x3ffff) == 0; stats_flush(); g_full = true; }
}
void stats_class(const char* name, uint64_t n) { g_classes[name] += n; }
void stats_class(const std::string& name, uint64_t n) { g_classes[name] += n; }
void stats_nontrivial(uint64_t h) { if (g_distinct.size() < kMaxDistinct) g_distinct.insert(h); }
bool stats_want_sample(uint64_t h) {
  if (g_samples.size() < kSamples) return g_samples.find(h) == g_samples.end();
  return h < g_samples.rbegin()->first && g_samples.find(h) == g_samples.end();
}
void stats_sample(uint64_t h, const std::string& text) {
  if (!stats_want_sample(h)) return;
  g_samples[h] = text.size() > 1500 ? text.substr(0, 1500) + "..." : text;
  if (g_samples.size() > kSamples) g_samples.erase(std::prev(g_samples.end()));
}
bool kf_open(const char* id) { return g_kf_open.count(id) != 0; }
void kf_hit(const char* id) { g_kf_hits[id]++; }

void stats_flush() {
  if (g_dir.empty()) return;
  if (g_main_pid && getpid() != g_main_pid) return;   // a forked child (e.g. libdbus' babysitter calling exit()) must not report
  char path[4096];
  snprintf(path, sizeof path, "%s/stats.%d.json.tmp", g_dir.c_str(), (int)getpid());
  FILE* f = fopen(path, "w");
  if (!f) return;
  fprintf(f, "{\"property\":\"%s\",\"pid\":%d,\"evaluations\":%llu,\"distinct_nontrivial\":%zu,\n\"classes\":{", g_prop.c_str(), (int)getpid(), (unsigned long long)g_execs, g_distinct.size());
  bool first = true;
  for (auto& kv : g_classes) { fprintf(f, "%s\"%s\":%llu", first ? "" : ",", jesc(kv.first).c_str(), (unsigned long long)kv.second); first = false; }
  fprintf(f, "},\n\"kf_hits\":{");
  first = true;
  for (auto& kv : g_kf_hits) { fprintf(f, "%s\"%s\":%llu", first ? "" : ",", jesc(kv.first).c_str(), (unsigned long long)kv.second); first = false; }
  fprintf(f, "},\n\"samples\":[");
  first = true;
  for (auto& kv : g_samples) { fprintf(f, "%s\n[\"%016llx\",\"%s\"]", first ? "" : ",", (unsigned long long)kv.first, jesc(kv.second).c_str()); first = false; }
  fprintf(f, "]}\n");
  fclose(f);
  char fin[4096];
  snprintf(fin, sizeof fin, "%s/stats.%d.json", g_dir.c_str(), (int)getpid());
  rename(path, fin);
  if (!g_full) return;
  // distinct hashes (binary, for cross-process merge)
  snprintf(path, sizeof path, "%s/distinct.%d.bin.tmp", g_dir.c_str(), (int)getpid());
  f = fopen(path, "wb");
  if (f) {
    std::vector<uint64_t> v(g_distinct.begin(), g_distinct.end());
    if (!v.empty()) fwrite(v.data(), 8, v.size(), f);
    fclose(f);
    snprintf(fin, sizeof fin, "%s/distinct.%d.bin", g_dir.c_str(), (int)getpid());
    rename(path, fin);
  }
}

void violation(const char* kind, const std::string& report) {
  fprintf(stderr, "\n==VP== ORACLE VIOLATION property=%s kind=%s\n%s\n==VP== END\n", g_prop.c_str(), kind, report.c_str());
  if (!g_dir.empty()) {
    char path[4096];
    snprintf(path, sizeof path, "%s/violation.%d.txt", g_dir.c_str(), (int)getpid());
    FILE* f = fopen(path, "w");
    if (f) { fprintf(f, "property=%s kind=%s\n%s\n", g_prop.c_str(), kind, report.c_str()); fclose(f); }
    if (g_have_blob) {
      snprintf(path, sizeof path, "%s/case.%d.bin", g_dir.c_str(), (int)getpid());
      f = fopen(path, "wb");
      if (f) { fwrite(g_blob.data(), 1, g_blob.size(), f); fclose(f); }
    }
  }
  stats_flush();
  fflush(nullptr);
  __builtin_trap();
}


void persist_case_blob() {
  if (g_dir.empty() || !g_have_blob) return;
  char path[4096]; snprintf(path, sizeof path, "%s/case.%d.bin", g_dir.c_str(), (int)getpid());
  FILE* f = fopen(path, "wb"); if (f) { fwrite(g_blob.data(), 1, g_blob.size(), f); fclose(f); }
}
void remove_case_blob() {
  if (g_dir.empty()) return;
  char path[4096]; snprintf(path, sizeof path, "%s/case.%d.bin", g_dir.c_str(), (int)getpid()); unlink(path);
}

}  // namespace vp
