// Single include point for libdbus / dbus-daemon internals used by the targets.
#pragma once
#include <config.h>
extern "C" {
#include <dbus/dbus.h>
#include <dbus/dbus-internals.h>
#include <dbus/dbus-string.h>
#include <dbus/dbus-list.h>
#include <dbus/dbus-memory.h>
#include <dbus/dbus-marshal-validate.h>
#include <dbus/dbus-marshal-byteswap.h>
#include <dbus/dbus-message-internal.h>
#include <dbus/dbus-message-private.h>
#include <dbus/dbus-signature.h>
#include <dbus/dbus-syntax.h>
#include <dbus/dbus-sysdeps.h>
}
#include <string>

namespace vp {
// RAII DBusString holding arbitrary bytes, optionally with prefix/suffix junk so
// that (start,len) addressing and over-reads are exercised.
struct DStr {
  DBusString s; bool ok;
  explicit DStr(const std::string& bytes) { ok = _dbus_string_init(&s) && _dbus_string_append_len(&s, bytes.data(), (int)bytes.size()); }
  ~DStr() { if (ok) _dbus_string_free(&s); }
  DStr(const DStr&) = delete;
};
}
