// In-process message bus fixture: a real BusContext (bus/*.c of the tree under
// test) driven by the harness through its DBusLoop, talked to by *raw* AF_UNIX
// clients whose every byte the harness controls.  Time is the virtual clock.
#pragma once
#include <string>
#include <vector>
#include <sys/types.h>
#include "wire.h"

struct BusContext;

namespace vp {

struct RecvFrame {
  Msg msg;
  std::string bytes;
  bool valid = true;          // independent decoder accepted the frame
  std::string why;            // reason if !valid
  std::vector<int> fds;       // descriptors that arrived with this frame (owned by the caller)
};

struct Client {
  int fd = -1;
  bool eof = false;
  std::string inbuf;          // undecoded bytes
  std::vector<int> infds;     // received descriptors not yet attributed to a frame
  std::string text;           // handshake text received before the first binary frame
  bool begun = false;         // BEGIN was written (binary mode afterwards)
  std::string unique;         // set by hello()
  uint32_t serial = 1;
  uid_t uid = 0;
  bool open() const { return fd >= 0; }
};

class Bus {
 public:
  Bus();
  ~Bus();
  // Starts a bus from configuration text ("@ADDR@" is replaced by a fresh abstract address).
  bool start(const std::string& config_xml, std::string* err);
  // close clients, pump, shut the context down, dbus_shutdown().  Returns the number of libdbus
  // allocations (dbus_malloc blocks) still outstanding compared with the moment before start(): 0 = no leak.
  long stop();
  bool running() const { return ctx_ != nullptr; }
  const std::string& address() const { return addr_; }

  // Raw clients.  uid == (uid_t)-1: connect as the harness' own uid.
  int connect_raw(uid_t uid = (uid_t)-1, gid_t gid = (gid_t)-1, const std::vector<gid_t>& groups = {});
  Client& client(int i) { return clients_[i]; }
  size_t nclients() const { return clients_.size(); }
  // "\0AUTH EXTERNAL <uid hex>\r\n[NEGOTIATE_UNIX_FD\r\n]BEGIN\r\n"; returns true iff the server said OK (and AGREE if asked)
  bool auth(int c, bool negotiate_fd = true);
  // Writes bytes (optionally with descriptors attached to the first byte).  Returns bytes written.
  size_t send_bytes(int c, const std::string& b, const std::vector<int>& fds = {});
  uint32_t send(int c, Msg m);       // assigns the client's next serial if m.serial == 0; returns the serial used
  uint32_t call(int c, const std::string& dest, const std::string& path, const std::string& iface, const std::string& member, const std::vector<Value>& args = {}, uint8_t flags = 0);
  uint32_t bus_call(int c, const std::string& member, const std::vector<Value>& args = {});
  // Run the bus main loop until nothing happens any more.  Returns false if the
  // iteration cap was hit (spin).
  bool pump(int max_iter = 10000);
  std::vector<RecvFrame> drain(int c);
  void close_client(int c);
  void advance(long ms);             // virtual clock, then pump
  // Convenience: Hello round trip; returns unique name ("" on failure).  Frames other than the Hello reply are returned in *extra.
  std::string hello(int c, std::vector<RecvFrame>* extra = nullptr);
  // Number of descriptors open in this process that the harness does not own.
  int foreign_fd_count();
  void track_fd(int fd, bool owned);
  long iterations() const { return iters_; }
  static void free_frames(std::vector<RecvFrame>& v);

 private:
  BusContext* ctx_ = nullptr;
  std::string addr_, conf_path_;
  std::vector<Client> clients_;
  long iters_ = 0;
  long blocks0_ = 0;
  int fds0_ = 0;
 public:
  int fds_leaked = 0;   // set by stop(): open descriptors now minus before start()
};

// Virtual clock (hook H1).  Activated on first use; monotone across iterations.
void vclock_activate();
void vclock_advance(long ms);

// Pretty helpers for models
std::string frame_brief(const Msg& m);

}  // namespace vp
