// Read a DBusMessage back through the *public* accessor and iterator API into
// the harness' own Msg/Value representation (the read-back half of C01/C02/C12).
#pragma once
#include "dbusx.h"
#include "wire.h"

namespace vp {
// Walk all values at the iterator's level.  Also cross-checks get_element_type,
// get_element_count, get_fixed_array, get_signature against the walk itself;
// returns false and sets *why on an inconsistency between those views.
bool walk_values(DBusMessageIter* it, std::vector<Value>& out, std::string* why, int depth = 0);
// Known header fields (codes 1..10 except UNIX_FDS which has no public accessor),
// flags bits 0..2, type, serial and body.  Field order: by code.
bool lib_to_msg(DBusMessage* m, Msg& out, std::string* why);
// Compare what the public API shows with an oracle-decoded message: known
// fields, flags (3 defined bits), type, serial, body.  "" if equal.
std::string diff_msgs(const Msg& lib, const Msg& oracle);
// Marshal to bytes.
bool lib_marshal(DBusMessage* m, std::string& out);
// Append a Value through the public append API (append_basic / open/close container; fixed arrays via append_fixed_array if use_fixed).
// use_fixed: 0 element by element, 1 one append_fixed_array block per array, 2 mixed (elements, two blocks, an empty block).
bool lib_append(DBusMessageIter* it, const Value& v, int use_fixed);
}
