// Independent D-Bus wire codec and specification validator.
// Written from doc/dbus-specification.xml chapters "Type System", "Marshaling
// (Wire Format)", "Message Format", "Valid Names".  Shares no code with libdbus.
#pragma once
#include <cstdint>
#include <string>
#include <vector>
#include "grammar.h"

namespace vp {

struct Value {
  char t = 0;                // y b n q i u x t d s o g h | a ( { v
  uint64_t u = 0;            // fixed-size scalars: raw bits, zero-extended
  std::string s;             // s/o/g: payload;  a: element signature;  others: unused
  std::vector<Value> kids;   // a: elements; ( fields; { key,value; v: exactly one
  uint64_t big = 0;          // a of fixed type longer than 256 KiB: element count; u = FNV fold of the element values, kids empty
  std::string sig() const;
  bool operator==(const Value& o) const;
  bool operator!=(const Value& o) const { return !(*this == o); }
  std::string show(int maxlen = 400) const;
  int depth() const;         // 0 for basic; containers: 1 + max(kids)
  static Value basic(char t, uint64_t u) { Value v; v.t = t; v.u = u; return v; }
  static Value str(char t, const std::string& s) { Value v; v.t = t; v.s = s; return v; }
  static Value variant(const Value& k) { Value v; v.t = 'v'; v.kids.push_back(k); return v; }
  static Value array(const std::string& elemsig) { Value v; v.t = 'a'; v.s = elemsig; return v; }
  static Value strct() { Value v; v.t = '('; return v; }
};

struct Field { uint8_t code = 0; Value v; };  // v = value inside the variant

enum { F_PATH = 1, F_INTERFACE, F_MEMBER, F_ERROR_NAME, F_REPLY_SERIAL, F_DESTINATION, F_SENDER, F_SIGNATURE, F_UNIX_FDS, F_CONTAINER_INSTANCE };
enum { T_CALL = 1, T_RETURN, T_ERROR, T_SIGNAL };

struct Msg {
  bool be = false;
  uint8_t type = 1, flags = 0, version = 1;
  uint32_t serial = 1;
  std::vector<Field> fields;   // in wire order, unknown fields preserved; includes SIGNATURE field if any
  std::vector<Value> body;
  const Value* field(uint8_t code) const;    // first occurrence
  std::string fstr(uint8_t code) const;       // string payload or ""
  uint32_t fu32(uint8_t code) const;          // or 0
  bool has(uint8_t code) const { return field(code) != nullptr; }
  void set_str(uint8_t code, char t, const std::string& s);
  void set_u32(uint8_t code, uint32_t v);
  void del(uint8_t code);
  std::string body_sig() const;
  void fix_signature();                       // set/remove F_SIGNATURE to match body
  std::string show() const;
};

// Marks recorded by the encoder: positions where single-site corruptions apply.
enum MarkKind { MK_LEN32, MK_PAD, MK_BOOL, MK_STRBYTE, MK_STRNUL, MK_SIGLEN, MK_SIGBYTE, MK_FIELDCODE, MK_FIXED, MK_PATHBYTE, MK_NAMEBYTE, MK_N };
struct Mark { MarkKind kind; size_t off, len; };

struct Layout { std::vector<Mark> marks; size_t header_len = 0, fields_len = 0, body_len = 0; };

// Append the marshalling of v to out; offsets are relative to out's start
// (callers make sure out starts at a multiple of 8).
void encode_value(const Value& v, std::string& out, bool be, Layout* lay = nullptr);
std::string encode_body(const std::vector<Value>& body, bool be, Layout* lay = nullptr);
std::string encode_msg(const Msg& m, Layout* lay = nullptr);

enum class Verdict { Valid, Invalid, Unspec };

struct DecodeErr { std::string reason; };

// Decode and validate a body against a signature.  Returns Valid/Invalid/Unspec.
// Unspec: the bytes are structurally valid but sit in a documented don't-care
// zone (value depth exactly 65).
Verdict decode_body(const std::string& sig, const uint8_t* p, size_t n, bool be, std::vector<Value>* out, std::string* reason);

enum class St { End, NeedMore, Corrupt };

struct Frame { Msg msg; size_t off = 0, len = 0; bool unspec = false; std::string unspec_why; };

struct StreamResult {
  std::vector<Frame> frames;     // complete valid frames before the first problem
  St final = St::End;            // End: buffer exhausted exactly; NeedMore: incomplete tail; Corrupt
  bool must_corrupt = false;     // (NeedMore) fixed-header sanity already fails -> implementation must flag corruption
  bool may_corrupt = false;      // (NeedMore) available prefix already contains a definitely-invalid byte
  bool tail_unspec = false;      // the frame at 'consumed' is in a don't-care zone: no verdict from here on
  std::string reason;
  size_t consumed = 0;           // bytes covered by frames
  size_t need = 0;               // (NeedMore) total length of the incomplete frame if known (>=16 bytes available), else 0
};

// nfds: descriptors that accompanied the stream (-1: do not check UNIX_FDS).
StreamResult decode_stream(const uint8_t* p, size_t n, int nfds, uint32_t max_message = (1u << 27));

// Validate one complete frame (exactly len bytes).
Verdict decode_frame(const uint8_t* p, size_t n, int nfds, Msg* out, std::string* reason, uint32_t max_message = (1u << 27), unsigned relax = 0);
enum { RELAX_MANDATORY = 1 };  // structural well-formedness only: do not require the fields mandatory for the message type

// What the 16-byte fixed header declares: total frame length, or 0 if <16 bytes.
// Sets *bad if the early sanity conditions fail.
size_t declared_length(const uint8_t* p, size_t n, bool* bad, uint32_t max_message = (1u << 27));

std::string hex(const std::string& s, size_t max = 256);
std::string hex(const uint8_t* p, size_t n, size_t max = 256);
uint64_t fnv1a(const void* p, size_t n, uint64_t h = 1469598103934665603ull);

}  // namespace vp
