// Security policy: rule representation, configuration text, and the documented
// evaluation (dbus-daemon(1) <policy>/<allow>/<deny>): contexts in the order
// default, group, user, mandatory; the last matching rule decides; nothing is
// allowed by default.  No rule is ever pruned here.  [M] man page, [D] documented
// in code comments, [U] unspecified -> Unknown.
#pragma once
#include <string>
#include <vector>
#include "wire.h"
#include "busmodel.h"

namespace vp {

enum class Tri3 { Any, True, False };
enum class Verd { Deny, Allow, Unknown };

struct PRule {
  bool allow = true;
  enum Kind { SEND, RECEIVE, OWN } kind = SEND;
  int type = 0;                         // 0 = any (absent or "*")
  std::string iface, member, path, error;   // "" = absent / "*"
  std::string dest; bool dest_prefix = false;   // send_destination / send_destination_prefix; receive_sender in `dest` for RECEIVE
  bool dest_star = false;               // send_destination="*" / receive_sender="*" given explicitly (matches anything)
  Tri3 broadcast = Tri3::Any;           // send_broadcast
  bool has_reqreply = false, reqreply = false;
  bool has_eavesdrop = false, eavesdrop = false;
  int min_fds = -1, max_fds = -1;
  std::string own; bool own_prefix = false; bool own_star = false;
  std::string xml() const;
};

struct PolicyCfg {
  std::vector<PRule> deflt, mandatory;
  std::vector<std::pair<std::string, std::vector<PRule>>> users;    // user name -> rules
  std::vector<std::pair<std::string, std::vector<PRule>>> groups;   // group name -> rules
  std::string scaffold_mandatory_xml;   // appended verbatim at the end of the mandatory context (and mirrored in `scaffold`)
  std::vector<PRule> scaffold;
  std::string xml() const;              // all <policy> elements
  // rule list that applies to a connection of the given user / groups, in evaluation order
  std::vector<PRule> rules_for(const std::string& user, const std::vector<std::string>& groups) const;
};

struct SendQ {       // one send decision
  const Msg* m; bool requested_reply; int receiver;   // receiver: model connection index, -1 = the bus driver / unknown
  int nfds = 0;
};
struct RecvQ {
  const Msg* m; bool requested_reply; int sender;     // -1 = the bus
  bool eavesdropping; int nfds = 0;
};

Verd can_send(const std::vector<PRule>& rules, const SendQ& q, const BusModel& reg, int* decisive_conflict = nullptr);
Verd can_receive(const std::vector<PRule>& rules, const RecvQ& q, const BusModel& reg, int* decisive_conflict = nullptr);
bool can_own(const std::vector<PRule>& rules, const std::string& name);

}  // namespace vp
