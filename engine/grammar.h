// Independent statement of the D-Bus specification's lexical grammars.
// Written from doc/dbus-specification.xml ("Valid Names", "Valid Object Paths",
// "Type System", "Signature strings") and RFC 3629.  Shares no code with libdbus.
#pragma once
#include <string>
#include <cstdint>

namespace vp {

// All predicates take an explicit byte string (may contain NUL).
bool is_utf8(const std::string& s);             // SPEC: valid UTF-8, no NUL, noncharacters allowed
bool is_object_path(const std::string& s);
bool is_interface(const std::string& s);
bool is_member(const std::string& s);
bool is_error_name(const std::string& s);
bool is_bus_name(const std::string& s);         // unique or well-known
bool is_unique_name(const std::string& s);
bool is_wellknown_name(const std::string& s);
bool is_bus_namespace(const std::string& s);    // arg0namespace: like bus name but a single element is allowed

// Reason a unique-looking name (leading ':') is invalid only because it has a
// single element or an empty first element (known finding C16-unique-name-short).
bool unique_name_short_form(const std::string& s);

// Signatures.  Returns true iff s is a sequence of zero or more single complete
// types within the limits (255 bytes, 32 arrays, 32 structs, dict entry rules).
bool is_signature(const std::string& s);
bool is_single_signature(const std::string& s); // exactly one complete type
bool sig_array_depth_ambiguous(const std::string& s); // UNSPEC: nested vs consecutive reading of the 32-array limit

// Length of the single complete type starting at s[pos], 0 if malformed.
// Does not check nesting limits (is_signature does).
size_t sct_len(const std::string& s, size_t pos);

int type_alignment(char c);   // alignment of a value whose type starts with c
bool is_basic_type(char c);
bool is_fixed_type(char c);
int fixed_size(char c);

}  // namespace vp
