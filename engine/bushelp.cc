#include "bushelp.h"
#include <algorithm>
#include <unistd.h>
#include <cstdio>
#include "stats.h"
#include "grammar.h"

namespace vp {

const char* const PERMISSIVE_POLICY =
  "<policy context=\"default\">\n"
  "  <allow send_destination=\"*\" eavesdrop=\"true\"/>\n"
  "  <allow eavesdrop=\"true\"/>\n"
  "  <allow own=\"*\"/>\n"
  "  <allow user=\"*\"/>\n"
  "</policy>\n";

std::string make_config(const std::string& type, const std::string& policy_xml, const BusLimits& l, const std::string& extra) {
  std::string s = "<!DOCTYPE busconfig PUBLIC \"-//freedesktop//DTD D-Bus Bus Configuration 1.0//EN\" \"http://www.freedesktop.org/standards/dbus/1.0/busconfig.dtd\">\n<busconfig>\n";
  if (!type.empty()) s += "<type>" + type + "</type>\n";
  s += "<listen>@ADDR@</listen>\n<auth>EXTERNAL</auth>\n";
  s += policy_xml.empty() ? PERMISSIVE_POLICY : policy_xml;
  auto lim = [&](const char* n, long v) { if (v >= 0) s += std::string("<limit name=\"") + n + "\">" + std::to_string(v) + "</limit>\n"; };
  lim("max_completed_connections", l.max_completed); lim("max_connections_per_user", l.max_per_user); lim("max_incomplete_connections", l.max_incomplete);
  lim("max_names_per_connection", l.max_names); lim("max_match_rules_per_connection", l.max_match_rules); lim("max_replies_per_connection", l.max_replies);
  lim("max_message_size", l.max_message_size); lim("reply_timeout", l.reply_timeout); lim("auth_timeout", l.auth_timeout);
  lim("pending_fd_timeout", l.pending_fd_timeout); lim("max_incoming_unix_fds", l.max_incoming_unix_fds); lim("max_message_unix_fds", l.max_message_unix_fds);
  lim("max_incoming_bytes", l.max_incoming_bytes); lim("max_outgoing_bytes", l.max_outgoing_bytes); lim("service_start_timeout", l.service_start_timeout);
  s += extra;
  s += "</busconfig>\n";
  return s;
}

std::string show_frames(const std::vector<RecvFrame>& got) {
  std::string s;
  for (auto& f : got) s += "    " + (f.valid ? frame_brief(f.msg) : "INVALID FRAME (" + f.why + ") " + hex(f.bytes, 64)) + "\n";
  return s.empty() ? "    (none)\n" : s;
}
std::string show_exps(const std::vector<Exp>& want) {
  std::string s;
  for (auto& e : want) s += "    " + e.show() + "\n";
  return s.empty() ? "    (none)\n" : s;
}

std::string match_frames(const std::vector<RecvFrame>& got, const std::vector<Exp>& want, uint32_t reply_last_serial) {
  std::vector<bool> used(got.size(), false);
  for (auto& f : got) if (!f.valid) return "bus emitted a frame the independent decoder rejects: " + f.why;
  for (auto& e : want) {
    bool found = false;
    for (size_t i = 0; i < got.size(); i++) {
      if (used[i]) continue;
      if (frame_vs_exp(got[i].msg, e).empty()) { used[i] = true; found = true; break; }
    }
    if (!found && !e.optional) return "missing expected frame: " + e.show();
  }
  for (size_t i = 0; i < got.size(); i++) if (!used[i]) return "unexpected frame: " + frame_brief(got[i].msg);
  if (reply_last_serial) {
    // [property C04] signals the bus sends because of this request precede the reply (copies of unicast traffic that an
    // eavesdropping requester sees are not signals of the request and may follow)
    bool seen_reply = false;
    for (size_t i = 0; i < got.size(); i++) {
      const Msg& m = got[i].msg;
      if ((m.type == T_RETURN || m.type == T_ERROR) && m.fu32(F_REPLY_SERIAL) == reply_last_serial && m.fstr(F_SENDER) == BUS_NAME) seen_reply = true;
      else if (seen_reply && m.type == T_SIGNAL && m.fstr(F_SENDER) == BUS_NAME)
        return "a signal from the bus follows the reply: signals caused by a request must precede its reply";
    }
  }
  return "";
}

bool sync_call(Bus& bus, int c, const std::string& member, const std::vector<Value>& args, RecvFrame* reply, std::vector<RecvFrame>* others) {
  uint32_t s = bus.bus_call(c, member, args);
  bus.pump();
  auto fr = bus.drain(c);
  bool have = false;
  for (auto& f : fr) {
    if (!have && f.valid && (f.msg.type == T_RETURN || f.msg.type == T_ERROR) && f.msg.fu32(F_REPLY_SERIAL) == s) { if (reply) *reply = f; have = true; }
    else if (others) others->push_back(f);
    else for (int fd : f.fds) close(fd);
  }
  if (!have && reply) { reply->valid = false; reply->why = "no reply"; }
  return have;
}

static std::string err_or(const RecvFrame& r) { return r.valid ? (r.msg.type == T_ERROR ? "error " + r.msg.fstr(F_ERROR_NAME) : frame_brief(r.msg)) : "(no reply)"; }

std::string check_registry(Bus& bus, int obs, const BusModel& model, const std::vector<std::string>& names) {
  std::vector<RecvFrame> others;
  for (auto& n : names) {
    RecvFrame r;
    std::string want = model.owner_unique(n);
    if (n == BUS_NAME) want = BUS_NAME;
    sync_call(bus, obs, "GetNameOwner", {Value::str('s', n)}, &r, &others);
    if (want.empty()) { if (!(r.valid && r.msg.type == T_ERROR && r.msg.fstr(F_ERROR_NAME) == "org.freedesktop.DBus.Error.NameHasNoOwner")) return "GetNameOwner(" + n + ") = " + err_or(r) + " but the model says the name has no owner"; }
    else if (!(r.valid && r.msg.type == T_RETURN && r.msg.body.size() == 1 && r.msg.body[0].s == want)) return "GetNameOwner(" + n + ") = " + err_or(r) + " but the model says " + want;
    sync_call(bus, obs, "NameHasOwner", {Value::str('s', n)}, &r, &others);
    if (!(r.valid && r.msg.type == T_RETURN && r.msg.body.size() == 1 && r.msg.body[0].t == 'b' && (r.msg.body[0].u != 0) == !want.empty())) return "NameHasOwner(" + n + ") = " + err_or(r) + " but the model owner is '" + want + "'";
    sync_call(bus, obs, "ListQueuedOwners", {Value::str('s', n)}, &r, &others);
    std::vector<std::string> wq = model.queued_owners(n);
    if (n == BUS_NAME) wq = {BUS_NAME};
    if (wq.empty()) { if (!(r.valid && r.msg.type == T_ERROR && r.msg.fstr(F_ERROR_NAME) == "org.freedesktop.DBus.Error.NameHasNoOwner")) return "ListQueuedOwners(" + n + ") = " + err_or(r) + " but the model queue is empty"; }
    else {
      if (!(r.valid && r.msg.type == T_RETURN && r.msg.body.size() == 1 && r.msg.body[0].t == 'a')) return "ListQueuedOwners(" + n + ") = " + err_or(r);
      std::vector<std::string> gq; for (auto& k : r.msg.body[0].kids) gq.push_back(k.s);
      if (gq != wq) { std::string a, b; for (auto& x : gq) a += x + " "; for (auto& x : wq) b += x + " "; return "ListQueuedOwners(" + n + ") = [" + a + "] but the specification's queue is [" + b + "]"; }
    }
  }
  RecvFrame r;
  sync_call(bus, obs, "ListNames", {}, &r, &others);
  if (!(r.valid && r.msg.type == T_RETURN && r.msg.body.size() == 1 && r.msg.body[0].t == 'a')) return "ListNames = " + err_or(r);
  std::vector<std::string> gl; for (auto& k : r.msg.body[0].kids) gl.push_back(k.s);
  std::sort(gl.begin(), gl.end());
  std::vector<std::string> wl = model.list_names();
  if (gl != wl) { std::string a, b; for (auto& x : gl) a += x + " "; for (auto& x : wl) b += x + " "; return "ListNames = [" + a + "] but the model says [" + b + "]"; }
  if (!others.empty()) { std::string s = "observer received unexpected frames during state query:\n" + show_frames(others); Bus::free_frames(others); return s; }
  return "";
}

std::string normalize_uniques(const std::string& s) {
  std::vector<std::string> seen; std::string out;
  for (size_t i = 0; i < s.size();) {
    if (s[i] == ':' && i + 1 < s.size() && s[i + 1] >= '0' && s[i + 1] <= '9') {
      size_t j = i + 1; while (j < s.size() && ((s[j] >= '0' && s[j] <= '9') || s[j] == '.')) j++;
      while (j > i + 1 && s[j - 1] == '.') j--;
      std::string u = s.substr(i, j - i);
      size_t k = 0; for (; k < seen.size(); k++) if (seen[k] == u) break;
      if (k == seen.size()) seen.push_back(u);
      out += "U" + std::to_string(k); i = j;
    } else out += s[i++];
  }
  return out;
}

}  // namespace vp

namespace vp {

std::set<std::string> Hist::all_uniques;

void Hist::fail(const char* kind, const std::string& what) {
  std::string s;
  for (auto& l : log) s += "  " + l + "\n";
  violation(kind, what + "\nhistory:\n" + s);
}

void Hist::start(const std::string& config) {
  std::string err;
  if (!bus.start(config, &err)) { fprintf(stderr, "==VP== HARNESS ERROR: bus start failed: %s\n", err.c_str()); fflush(nullptr); _exit(2); }
}

int Hist::add_client(bool do_hello, uid_t uid, bool negotiate_fd) {
  int c = bus.connect_raw(uid);
  int m = model.add_conn();
  if (c != m) { fprintf(stderr, "==VP== HARNESS ERROR: client/model index mismatch\n"); _exit(2); }
  if (!bus.auth(c, negotiate_fd)) fail("setup", "authentication of client" + std::to_string(c) + " failed: '" + bus.client(c).text + "'");
  if (do_hello) hello(c);
  return c;
}

void Hist::hello(int c) {
  std::vector<RecvFrame> extra;
  uint32_t serial = bus.client(c).serial;
  std::string u = bus.hello(c, &extra);
  log.push_back("client" + std::to_string(c) + " Hello -> " + u);
  if (u.empty() || u[0] != ':' || !is_unique_name(u)) fail("hello", "Hello did not return a grammatical unique name: '" + u + "'");
  if (!all_uniques.insert(u).second) fail("unique-name-reused", "unique name " + u + " was handed out before in the lifetime of this bus process");
  Out o; model.hello(c, u, serial, o);
  { Msg dc; dc.type = T_CALL; dc.serial = serial; dc.set_str(F_PATH, 'o', BUS_PATH); dc.set_str(F_DESTINATION, 's', BUS_NAME); dc.set_str(F_INTERFACE, 's', BUS_IFACE); dc.set_str(F_MEMBER, 's', "Hello"); model.add_optional_eavesdrop(o, -1, nullptr);
    // the Hello call itself reaches eavesdroppers with the placeholder sender: not predicted, so allow any copy of it
    for (size_t y = 0; y < model.conns.size(); y++) if ((int)y != c) for (auto& r : model.conns[y].rules) if (r.eavesdrop) { Msg st = dc; st.set_str(F_SENDER, 's', u); Exp x = exp_forward(st); x.optional = true; o[(int)y].push_back(x); break; } }
  std::vector<Exp> want; for (auto& e : o[c]) if (e.type == T_SIGNAL) want.push_back(e);
  std::string d = match_frames(extra, want);
  if (!d.empty()) fail("hello-frames", "client" + std::to_string(c) + " after its Hello: " + d + "\n  got:\n" + show_frames(extra) + "  want:\n" + show_exps(want));
  Bus::free_frames(extra);
  o.erase(c);
  compare_all(o, -1, 0, "after a Hello");
}

void Hist::compare_all(Out& out, int caller, uint32_t serial, const char* what) {
  for (size_t j = 0; j < bus.nclients(); j++) {
    if (!bus.client((int)j).open()) continue;
    if (j < model.conns.size() && model.conns[j].monitor) continue;   // monitors are checked by their own oracle
    auto fr = bus.drain((int)j);
    std::vector<Exp>& want = out[(int)j];
    if (bus.client((int)j).eof && model.conns[j].alive) fail("disconnected", "client" + std::to_string(j) + " was disconnected by the bus " + what);
    std::string d = match_frames(fr, want, (int)j == caller ? serial : 0);
    if (!d.empty()) fail("frames-differ", std::string(what) + " client" + std::to_string(j) + " (" + bus.client((int)j).unique + "): " + d + "\n  got:\n" + show_frames(fr) + "  want:\n" + show_exps(want));
    Bus::free_frames(fr);
  }
}

void Hist::add_rule(int c, const std::string& text) {
  MatchRule mr; std::string why;
  if (parse_match_rule(text, &mr, &why) != RuleParse::Ok) { fprintf(stderr, "==VP== HARNESS ERROR: harness rule does not parse: %s\n", why.c_str()); _exit(2); }
  RecvFrame r; std::vector<RecvFrame> oth;
  sync_call(bus, c, "AddMatch", {Value::str('s', text)}, &r, &oth);
  log.push_back("client" + std::to_string(c) + " AddMatch " + text);
  if (!(r.valid && r.msg.type == T_RETURN)) fail("setup", "AddMatch(" + text + ") failed");
  model.add_match(c, mr);
  // copies of the call/reply that eavesdroppers (including the caller) legitimately see are not checked here
  Bus::free_frames(oth);
  for (size_t j = 0; j < bus.nclients(); j++) if ((int)j != c && bus.client((int)j).open()) { auto fr = bus.drain((int)j); Bus::free_frames(fr); }
}

void Hist::own(int c, const std::string& name, uint32_t flags) {
  uint32_t serial = bus.client(c).serial;
  bus.bus_call(c, "RequestName", {Value::str('s', name), Value::basic('u', flags)});
  Out o; std::string e;
  BusModel before = model;
  uint32_t code = model.request_name(c, name, flags, serial, o, &e);
  { Msg dc; dc.type = T_CALL; dc.serial = serial; dc.set_str(F_PATH, 'o', BUS_PATH); dc.set_str(F_DESTINATION, 's', BUS_NAME); dc.set_str(F_INTERFACE, 's', BUS_IFACE); dc.set_str(F_MEMBER, 's', "RequestName"); dc.body = {Value::str('s', name), Value::basic('u', flags)}; dc.fix_signature(); before.add_optional_eavesdrop(o, c, &dc); }
  log.push_back("client" + std::to_string(c) + "(" + uniq(c) + ") RequestName('" + name + "'," + std::to_string(flags) + ") -> model " + (code ? std::to_string(code) : e));
  bus.pump();
  compare_all(o, c, serial, "after RequestName");
}

std::string Hist::key() const { std::string k; for (auto& l : log) k += l + "|"; return normalize_uniques(k); }
std::string Hist::sample() const { std::string s; for (auto& l : log) s += l + "; "; return normalize_uniques(s); }

std::pair<long, int> Hist::finish() { long l = bus.stop(); return {l, bus.fds_leaked}; }

}  // namespace vp

namespace vp {
static bool mg_rec(const std::vector<RecvFrame>& got, size_t oi, const std::vector<std::vector<Exp>>& groups, size_t gi, std::string* why) {
  if (gi == groups.size()) { if (oi == got.size()) return true; *why = "unexpected extra frame: " + frame_brief(got[oi].msg); return false; }
  const std::vector<Exp>& g = groups[gi];
  size_t req = 0; for (auto& e : g) if (!e.optional) req++;
  for (size_t k = req; k <= g.size(); k++) {
    if (oi + k > got.size()) break;
    std::vector<RecvFrame> slice(got.begin() + oi, got.begin() + oi + k);
    std::string d = match_frames(slice, g);
    if (d.empty() && mg_rec(got, oi + k, groups, gi + 1, why)) return true;
    if (!d.empty() && why->empty()) *why = d;
  }
  if (why->empty()) *why = "frames missing for operation group #" + std::to_string(gi);
  return false;
}
std::string match_groups(const std::vector<RecvFrame>& got, const std::vector<std::vector<Exp>>& groups) {
  for (auto& f : got) if (!f.valid) return "bus emitted a frame the independent decoder rejects: " + f.why;
  std::vector<std::vector<Exp>> g2; for (auto& g : groups) if (!g.empty()) g2.push_back(g);
  std::string why;
  if (mg_rec(got, 0, g2, 0, &why)) return "";
  return why.empty() ? "no consistent split" : why;
}
}

#include <algorithm>
namespace vp {
std::string Belief::step(Hist& h, const std::vector<BOp>& ops, const std::vector<bool>& lazy, int* tried_out) {
  int total = (int)h.bus.nclients();
  for (auto& c : cands) c.pending.resize(total);
  for (auto& op : ops) { h.log.push_back(op.desc); if (op.write) op.write(h.bus); }
  if (!h.bus.pump()) return "bus main loop did not become idle (spin)";
  std::vector<bool> lz(total, false); for (int j = 0; j < total && j < (int)lazy.size(); j++) lz[j] = lazy[j];
  std::vector<std::vector<RecvFrame>> got(total);
  for (int j = 0; j < total; j++) if (h.open(j) && !lz[j] && !(j < (int)h.model.conns.size() && h.model.conns[j].monitor)) got[j] = h.bus.drain(j);
  std::vector<Cand> next; std::vector<std::string> seen;
  std::string first_diff; int tried = 0;
  for (auto& cand : cands) {
    std::vector<size_t> perm(ops.size()); for (size_t i = 0; i < perm.size(); i++) perm[i] = i;
    do {
      bool valid = true;
      for (size_t a = 0; a < perm.size() && valid; a++) for (size_t b = a + 1; b < perm.size(); b++)
        if ((ops[perm[a]].c == ops[perm[b]].c || ops[perm[a]].c < 0 || ops[perm[b]].c < 0) && perm[a] > perm[b]) { valid = false; break; }
      if (!valid) continue;
      tried++;
      Cand n; n.m = cand.m; n.pending.assign(total, {});
      std::vector<std::vector<std::vector<Exp>>> groups(total);
      for (size_t a = 0; a < perm.size(); a++) { Out o; ops[perm[a]].apply(n.m, o); for (auto& kv : o) if (kv.first >= 0 && kv.first < total) groups[kv.first].push_back(kv.second); }
      bool all = true; std::string diff;
      for (int j = 0; j < total && all; j++) {
        if (!h.open(j)) continue;
        if (j < (int)n.m.conns.size() && n.m.conns[j].monitor) continue;
        std::vector<std::vector<Exp>> gj = cand.pending[j]; gj.insert(gj.end(), groups[j].begin(), groups[j].end());
        if (lz[j]) { n.pending[j] = gj; continue; }
        std::string d = match_groups(got[j], gj);
        if (!d.empty()) { all = false; diff = "client" + std::to_string(j) + " (" + h.uniq(j) + "): " + d + "\n  got:\n" + show_frames(got[j]) + "  want (one serialisation):\n"; for (auto& g : gj) diff += show_exps(g); }
        else if (h.bus.client(j).eof && n.m.conns[j].alive) { all = false; diff = "client" + std::to_string(j) + " was disconnected by the bus"; }
      }
      if (!all) { if (first_diff.empty()) first_diff = diff; continue; }
      std::string fp = n.m.fingerprint(); for (int j = 0; j < total; j++) for (auto& g : n.pending[j]) { fp += "|" + std::to_string(j) + ":"; for (auto& e : g) fp += e.show(); }
      if (std::find(seen.begin(), seen.end(), fp) == seen.end()) { seen.push_back(fp); if (next.size() < 64) next.push_back(n); else overflow = true; }
    } while (std::next_permutation(perm.begin(), perm.end()));
  }
  for (int j = 0; j < total; j++) Bus::free_frames(got[j]);
  if (tried_out) *tried_out = tried;
  if (overflow) return "";
  if (next.empty()) return "none of the " + std::to_string(tried) + " (state, serialisation) candidates explains what the clients received; first difference:\n" + first_diff;
  cands = next;
  h.model = cands[0].m;
  return "";
}

std::string Belief::resume_all(Hist& h) {
  int total = (int)h.bus.nclients();
  std::vector<std::vector<RecvFrame>> got(total);
  for (int j = 0; j < total; j++) if (h.open(j) && !(j < (int)h.model.conns.size() && h.model.conns[j].monitor)) got[j] = h.bus.drain(j);
  std::vector<Cand> next; std::string first;
  for (auto& cand : cands) {
    bool all = true;
    for (int j = 0; j < total && all; j++) if (h.open(j) && j < (int)cand.pending.size() && !(j < (int)cand.m.conns.size() && cand.m.conns[j].monitor)) {
      std::string d = match_groups(got[j], cand.pending[j]);
      if (!d.empty()) { all = false; if (first.empty()) first = "client" + std::to_string(j) + " (late reader): " + d + "\n  got:\n" + show_frames(got[j]); }
    }
    if (all) { Cand n = cand; n.pending.assign(total, {}); next.push_back(n); }
  }
  for (int j = 0; j < total; j++) Bus::free_frames(got[j]);
  if (next.empty()) return first;
  cands = next; h.model = cands[0].m;
  return "";
}

std::string Belief::check_registry_any(Hist& h, const std::vector<std::string>& names) {
  int total = (int)h.bus.nclients();
  int obs = h.bus.connect_raw();
  if (!h.bus.auth(obs) || h.bus.hello(obs).empty()) return "observer could not register";
  Hist::all_uniques.insert(h.bus.client(obs).unique);
  for (int j = 0; j < total; j++) if (h.open(j)) { auto fr = h.bus.drain(j); Bus::free_frames(fr); }
  std::string first;
  for (auto& cand : cands) {
    BusModel m2 = cand.m; while ((int)m2.conns.size() < obs) { m2.add_conn(); m2.conns.back().alive = false; }
    int mo = m2.add_conn(); m2.conns[mo].registered = true; m2.conns[mo].unique = h.bus.client(obs).unique;
    std::string d = check_registry(h.bus, obs, m2, names);
    for (int j = 0; j < total; j++) if (h.open(j)) { auto fr = h.bus.drain(j); Bus::free_frames(fr); }
    if (d.empty()) { h.bus.close_client(obs); h.bus.pump(); return ""; }
    if (first.empty()) first = d;
  }
  return first + "\n(" + std::to_string(cands.size()) + " candidate states, none agrees)";
}
}
