// Independent SHA-1 (FIPS 180-1), oracle for DBUS_COOKIE_SHA1.
#pragma once
#include <string>
namespace vp { std::string sha1_hex(const std::string& data); }
