#include "inproc_bus.h"
#include "dbusx.h"
extern "C" {
#include <dbus/dbus-mainloop.h>
#include <bus/bus.h>
}
#include <cerrno>
#include <cstdio>
#include <cstdlib>
#include <cstring>
#include <dirent.h>
#include <fcntl.h>
#include <grp.h>
#include <poll.h>
#include <sys/socket.h>
#include <sys/un.h>
#include <sys/wait.h>
#include <unistd.h>

namespace vp {

static bool g_clock_on = false;
static int g_busno = 0;

void vclock_activate() {
  if (!g_clock_on) { _dbus_verif_clock_set(1, 1000000, 0); g_clock_on = true; }
}
void vclock_advance(long ms) { vclock_activate(); _dbus_verif_clock_advance_ms(ms); }

static void harness_error(const char* what) {
  fprintf(stderr, "==VP== HARNESS ERROR: %s (errno=%d %s)\n", what, errno, strerror(errno));
  fflush(nullptr);
  _exit(2);  // never a violation: libFuzzer sees a plain exit, no artifact
}

Bus::Bus() {}
Bus::~Bus() { if (ctx_) stop(); }

bool Bus::start(const std::string& config_xml, std::string* err) {
  vclock_activate();
  dbus_shutdown();
  blocks0_ = _dbus_get_malloc_blocks_outstanding();
  fds0_ = foreign_fd_count();
  char buf[256];
  snprintf(buf, sizeof buf, "vp-bus-%d-%d", (int)getpid(), ++g_busno);
  addr_ = std::string("unix:abstract=") + buf;
  std::string xml = config_xml;
  size_t p;
  while ((p = xml.find("@ADDR@")) != std::string::npos) xml.replace(p, 6, addr_);
  snprintf(buf, sizeof buf, "vp-bus-%d.conf", (int)getpid());
  conf_path_ = buf;
  FILE* f = fopen(conf_path_.c_str(), "w");
  if (!f) harness_error("cannot write bus configuration in the working directory");
  fwrite(xml.data(), 1, xml.size(), f);
  fclose(f);
  DBusString cf;
  _dbus_string_init_const(&cf, conf_path_.c_str());
  DBusError e; dbus_error_init(&e);
  ctx_ = bus_context_new(&cf, BUS_CONTEXT_FLAG_NONE, nullptr, nullptr, nullptr, &e);
  if (!ctx_) {
    if (err) *err = std::string(e.name ? e.name : "?") + ": " + (e.message ? e.message : "");
    dbus_error_free(&e);
    return false;
  }
  const char* a = bus_context_get_address(ctx_);
  if (a) { addr_ = a; size_t c = addr_.find(','); if (c != std::string::npos) addr_.resize(c); }
  return true;
}

void Bus::free_frames(std::vector<RecvFrame>& v) { for (auto& fr : v) for (int fd : fr.fds) close(fd); v.clear(); }

long Bus::stop() {
  for (size_t i = 0; i < clients_.size(); i++) close_client((int)i);
  if (ctx_) {
    pump();
    bus_context_shutdown(ctx_);
    bus_context_unref(ctx_);
    ctx_ = nullptr;
  }
  clients_.clear();
  if (!conf_path_.empty()) unlink(conf_path_.c_str());
  dbus_shutdown();
  fds_leaked = foreign_fd_count() - fds0_;
  return _dbus_get_malloc_blocks_outstanding() - blocks0_;
}

static int connect_abstract(const std::string& addr) {
  // addr = unix:abstract=NAME
  size_t p = addr.find("abstract=");
  if (p == std::string::npos) return -1;
  std::string name = addr.substr(p + 9);
  size_t c = name.find(','); if (c != std::string::npos) name.resize(c);
  int fd = socket(AF_UNIX, SOCK_STREAM | SOCK_CLOEXEC, 0);
  if (fd < 0) return -1;
  struct sockaddr_un sa; memset(&sa, 0, sizeof sa);
  sa.sun_family = AF_UNIX;
  if (name.size() + 1 > sizeof sa.sun_path) { close(fd); return -1; }
  memcpy(sa.sun_path + 1, name.data(), name.size());
  socklen_t len = offsetof(struct sockaddr_un, sun_path) + 1 + name.size();
  if (connect(fd, (struct sockaddr*)&sa, len) < 0) { close(fd); return -1; }
  return fd;
}

static int recv_fd_(int sock, int timeout_ms) {
  struct pollfd pfd = {sock, POLLIN, 0};
  int pr; int tries = 0;
  while ((pr = poll(&pfd, 1, timeout_ms)) < 0 && errno == EINTR && tries++ < 100) {}   // (libFuzzer's SIGALRM interrupts us)
  if (pr <= 0) return -2;
  char c; struct iovec iov = {&c, 1};
  char ctl[CMSG_SPACE(sizeof(int))];
  struct msghdr mh; memset(&mh, 0, sizeof mh);
  mh.msg_iov = &iov; mh.msg_iovlen = 1; mh.msg_control = ctl; mh.msg_controllen = sizeof ctl;
  ssize_t rn; while ((rn = recvmsg(sock, &mh, MSG_CMSG_CLOEXEC)) < 0 && errno == EINTR) {}
  if (rn <= 0) return -1;
  for (struct cmsghdr* cm = CMSG_FIRSTHDR(&mh); cm; cm = CMSG_NXTHDR(&mh, cm))
    if (cm->cmsg_level == SOL_SOCKET && cm->cmsg_type == SCM_RIGHTS) { int fd; memcpy(&fd, CMSG_DATA(cm), sizeof fd); return fd; }
  return -1;
}

int Bus::connect_raw(uid_t uid, gid_t gid, const std::vector<gid_t>& groups) {
  int fd = -1;
  if (uid == (uid_t)-1 || uid == getuid()) {
    fd = connect_abstract(addr_);
    if (fd < 0) harness_error("connect to in-process bus failed");
    uid = getuid();
  } else {
    // a short-lived child connects under the other uid and passes the connected socket back:
    // SO_PEERCRED / SO_PEERGROUPS then report the child's credentials.
    int sp[2];
    if (socketpair(AF_UNIX, SOCK_STREAM | SOCK_CLOEXEC, 0, sp) < 0) harness_error("socketpair");
    fflush(nullptr);
    pid_t pid = fork();
    if (pid < 0) harness_error("fork");
    if (pid == 0) {
      close(sp[0]);
      gid_t g = gid == (gid_t)-1 ? (gid_t)uid : gid;
      if (setgroups(groups.size(), groups.empty() ? nullptr : groups.data()) < 0) _exit(11);
      if (setresgid(g, g, g) < 0) _exit(12);
      if (setresuid(uid, uid, uid) < 0) _exit(13);
      int cfd = connect_abstract(addr_);
      if (cfd < 0) _exit(14);
      char c = 'x'; struct iovec iov = {&c, 1};
      char ctl[CMSG_SPACE(sizeof(int))]; memset(ctl, 0, sizeof ctl);
      struct msghdr mh; memset(&mh, 0, sizeof mh);
      mh.msg_iov = &iov; mh.msg_iovlen = 1; mh.msg_control = ctl; mh.msg_controllen = sizeof ctl;
      struct cmsghdr* cm = CMSG_FIRSTHDR(&mh);
      cm->cmsg_level = SOL_SOCKET; cm->cmsg_type = SCM_RIGHTS; cm->cmsg_len = CMSG_LEN(sizeof(int));
      memcpy(CMSG_DATA(cm), &cfd, sizeof cfd);
      if (sendmsg(sp[1], &mh, 0) < 0) _exit(15);
      _exit(0);
    }
    close(sp[1]);
    fd = recv_fd_(sp[0], 10000);
    close(sp[0]);
    int st = 0;
    while (waitpid(pid, &st, 0) < 0 && errno == EINTR) {}
    if (fd < 0) harness_error("uid-switching helper child failed to pass a connected socket");
  }
  int fl = fcntl(fd, F_GETFL);
  fcntl(fd, F_SETFL, fl | O_NONBLOCK);
  Client c; c.fd = fd; c.uid = uid;
  clients_.push_back(c);
  return (int)clients_.size() - 1;
}

size_t Bus::send_bytes(int ci, const std::string& b, const std::vector<int>& fds) {
  Client& c = clients_[ci];
  if (c.fd < 0) return 0;
  size_t off = 0;
  int stalls = 0;
  bool fds_sent = fds.empty();
  while (off < b.size()) {
    ssize_t n;
    if (!fds_sent) {
      struct iovec iov = {(void*)(b.data() + off), b.size() - off};
      std::vector<char> ctl(CMSG_SPACE(sizeof(int) * fds.size()), 0);
      struct msghdr mh; memset(&mh, 0, sizeof mh);
      mh.msg_iov = &iov; mh.msg_iovlen = 1; mh.msg_control = ctl.data(); mh.msg_controllen = ctl.size();
      struct cmsghdr* cm = CMSG_FIRSTHDR(&mh);
      cm->cmsg_level = SOL_SOCKET; cm->cmsg_type = SCM_RIGHTS; cm->cmsg_len = CMSG_LEN(sizeof(int) * fds.size());
      memcpy(CMSG_DATA(cm), fds.data(), sizeof(int) * fds.size());
      n = sendmsg(c.fd, &mh, MSG_NOSIGNAL);
      if (n > 0) fds_sent = true;
    } else {
      n = ::send(c.fd, b.data() + off, b.size() - off, MSG_NOSIGNAL);
    }
    if (n > 0) { off += (size_t)n; stalls = 0; continue; }
    if (n < 0 && (errno == EAGAIN || errno == EWOULDBLOCK)) {
      // socket buffer full: let the bus read (bounded)
      if (++stalls > 200) break;
      pump(200);
      continue;
    }
    if (n < 0 && errno == EINTR) continue;
    break;  // EPIPE/ECONNRESET: peer closed
  }
  return off;
}

uint32_t Bus::send(int ci, Msg m) {
  Client& c = clients_[ci];
  if (m.serial == 0) m.serial = c.serial++;
  send_bytes(ci, encode_msg(m));
  return m.serial;
}

uint32_t Bus::call(int c, const std::string& dest, const std::string& path, const std::string& iface, const std::string& member, const std::vector<Value>& args, uint8_t flags) {
  Msg m; m.type = T_CALL; m.flags = flags; m.serial = 0;
  m.set_str(F_PATH, 'o', path);
  if (!dest.empty()) m.set_str(F_DESTINATION, 's', dest);
  if (!iface.empty()) m.set_str(F_INTERFACE, 's', iface);
  m.set_str(F_MEMBER, 's', member);
  m.body = args; m.fix_signature();
  return send(c, m);
}
uint32_t Bus::bus_call(int c, const std::string& member, const std::vector<Value>& args) {
  return call(c, "org.freedesktop.DBus", "/org/freedesktop/DBus", "org.freedesktop.DBus", member, args);
}

bool Bus::pump(int max_iter) {
  if (!ctx_) return true;
  DBusLoop* loop = bus_context_get_loop(ctx_);
  int quiet = 0;
  for (int i = 0; i < max_iter; i++) {
    iters_++;
    if (_dbus_loop_iterate(loop, FALSE)) quiet = 0; else if (++quiet >= 2) return true;
  }
  return false;
}

void Bus::advance(long ms) { vclock_advance(ms); pump(); }

std::vector<RecvFrame> Bus::drain(int ci) {
  Client& c = clients_[ci];
  std::vector<RecvFrame> out;
  if (c.fd >= 0) {
    while (true) {
      char buf[65536];
      struct iovec iov = {buf, sizeof buf};
      char ctl[CMSG_SPACE(sizeof(int) * 64)];
      struct msghdr mh; memset(&mh, 0, sizeof mh);
      mh.msg_iov = &iov; mh.msg_iovlen = 1; mh.msg_control = ctl; mh.msg_controllen = sizeof ctl;
      ssize_t n = recvmsg(c.fd, &mh, MSG_CMSG_CLOEXEC | MSG_DONTWAIT);
      if (n > 0) {
        c.inbuf.append(buf, n);
        for (struct cmsghdr* cm = CMSG_FIRSTHDR(&mh); cm; cm = CMSG_NXTHDR(&mh, cm))
          if (cm->cmsg_level == SOL_SOCKET && cm->cmsg_type == SCM_RIGHTS) {
            size_t cnt = (cm->cmsg_len - CMSG_LEN(0)) / sizeof(int);
            for (size_t k = 0; k < cnt; k++) { int fd; memcpy(&fd, CMSG_DATA(cm) + k * sizeof(int), sizeof fd); c.infds.push_back(fd); }
          }
        continue;
      }
      if (n == 0) { c.eof = true; break; }
      if (errno == EINTR) continue;
      if (errno == EAGAIN || errno == EWOULDBLOCK) break;
      c.eof = true; break;  // ECONNRESET
    }
  }
  // handshake text precedes binary frames: lines end in \r\n and begin with an ASCII letter
  while (!c.inbuf.empty() && c.inbuf[0] != 'l' && c.inbuf[0] != 'B') {
    size_t e = c.inbuf.find("\r\n");
    if (e == std::string::npos) break;
    c.text += c.inbuf.substr(0, e + 2);
    c.inbuf.erase(0, e + 2);
  }
  while (c.inbuf.size() >= 16 && (c.inbuf[0] == 'l' || c.inbuf[0] == 'B')) {
    bool bad;
    size_t total = declared_length((const uint8_t*)c.inbuf.data(), c.inbuf.size(), &bad);
    RecvFrame fr;
    if (bad) { fr.valid = false; fr.why = "bus emitted a frame whose fixed header fails the sanity check"; fr.bytes = c.inbuf; c.inbuf.clear(); out.push_back(fr); break; }
    if (total > c.inbuf.size()) break;
    fr.bytes = c.inbuf.substr(0, total);
    c.inbuf.erase(0, total);
    Verdict v = decode_frame((const uint8_t*)fr.bytes.data(), fr.bytes.size(), -1, &fr.msg, &fr.why);
    if (v == Verdict::Invalid) fr.valid = false;
    if (v == Verdict::Unspec) {
      // still decode what we can: relaxed view is not available; mark valid but keep reason
      fr.valid = true;
    }
    uint32_t nf = fr.valid ? fr.msg.fu32(F_UNIX_FDS) : 0;
    for (uint32_t k = 0; k < nf && !c.infds.empty(); k++) { fr.fds.push_back(c.infds.front()); c.infds.erase(c.infds.begin()); }
    out.push_back(std::move(fr));
  }
  return out;
}

void Bus::close_client(int ci) {
  Client& c = clients_[ci];
  if (c.fd >= 0) { close(c.fd); c.fd = -1; }
  for (int fd : c.infds) close(fd);
  c.infds.clear();
}

bool Bus::auth(int ci, bool negotiate_fd) {
  Client& c = clients_[ci];
  char uidbuf[32]; snprintf(uidbuf, sizeof uidbuf, "%u", (unsigned)c.uid);
  std::string hexuid; for (char* p = uidbuf; *p; p++) { char h[4]; snprintf(h, sizeof h, "%02x", (unsigned char)*p); hexuid += h; }
  std::string s = std::string(1, '\0') + "AUTH EXTERNAL " + hexuid + "\r\n";
  if (negotiate_fd) s += "NEGOTIATE_UNIX_FD\r\n";
  s += "BEGIN\r\n";
  send_bytes(ci, s);
  c.begun = true;
  pump();
  auto fr = drain(ci);
  free_frames(fr);
  bool ok = c.text.rfind("OK ", 0) == 0;
  if (negotiate_fd && c.text.find("AGREE_UNIX_FD") == std::string::npos) ok = false;
  return ok;
}

std::string Bus::hello(int ci, std::vector<RecvFrame>* extra) {
  Client& c = clients_[ci];
  uint32_t s = bus_call(ci, "Hello");
  pump();
  auto frames = drain(ci);
  std::string name;
  for (auto& fr : frames) {
    if (fr.valid && fr.msg.type == T_RETURN && fr.msg.fu32(F_REPLY_SERIAL) == s && fr.msg.body.size() == 1 && fr.msg.body[0].t == 's') name = fr.msg.body[0].s;
    else if (extra) { extra->push_back(fr); fr.fds.clear(); }
  }
  free_frames(frames);
  c.unique = name;
  return name;
}

int Bus::foreign_fd_count() {
  int n = 0;
  DIR* d = opendir("/proc/self/fd");
  if (!d) return -1;
  int dfd = dirfd(d);
  while (struct dirent* e = readdir(d)) { if (e->d_name[0] == '.') continue; if (atoi(e->d_name) == dfd) continue; n++; }
  closedir(d);
  return n;
}
void Bus::track_fd(int, bool) {}

std::string frame_brief(const Msg& m) {
  static const char* tn[] = {"?", "call", "return", "error", "signal"};
  std::string s = m.type <= 4 ? tn[m.type] : "type" + std::to_string(m.type);
  s += " serial=" + std::to_string(m.serial);
  if (m.has(F_SENDER)) s += " from=" + m.fstr(F_SENDER);
  if (m.has(F_DESTINATION)) s += " to=" + m.fstr(F_DESTINATION);
  if (m.has(F_INTERFACE)) s += " " + m.fstr(F_INTERFACE);
  if (m.has(F_MEMBER)) s += "." + m.fstr(F_MEMBER);
  if (m.has(F_ERROR_NAME)) s += " err=" + m.fstr(F_ERROR_NAME);
  if (m.has(F_REPLY_SERIAL)) s += " rs=" + std::to_string(m.fu32(F_REPLY_SERIAL));
  s += " [";
  for (size_t i = 0; i < m.body.size() && i < 4; i++) { if (i) s += ","; s += m.body[i].show(60); }
  return s + "]";
}

}  // namespace vp
