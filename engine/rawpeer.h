// Raw peer for library-level targets: the harness owns one end of a socketpair and
// plays the *server* half of the handshake by hand; the other end is wrapped in a
// real client-side DBusConnection (private, never talks to a bus).
#pragma once
#include "dbusx.h"
#include "inproc_bus.h"   // RecvFrame

namespace vp {

class RawPeer {
 public:
  int fd = -1;
  bool eof = false;
  std::string inbuf;
  ~RawPeer();
  // Creates the socketpair and the DBusConnection, drives the SASL exchange to completion.  nullptr on failure.
  // virtual_clock=false leaves time real (multi-threaded targets).
  DBusConnection* connect(bool agree_unix_fd = false, bool virtual_clock = true);
  void write_bytes(const std::string& b);
  void write_msg(const Msg& m) { write_bytes(encode_msg(m)); }
  std::vector<RecvFrame> read_frames();       // non-blocking
  void close_peer();
};

// Let the connection do all pending I/O and dispatch until nothing happens (bounded).
void pump_connection(DBusConnection* c, int max_iter = 200);

}  // namespace vp
