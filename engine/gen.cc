#include "gen.h"
#include <cstring>

namespace vp {

size_t pick(FDP& f, size_t n) { return n <= 1 ? 0 : f.ConsumeIntegralInRange<size_t>(0, n - 1); }
bool rare(FDP& f, size_t n) { return n <= 1 ? true : f.ConsumeIntegralInRange<size_t>(0, n - 1) == n - 1; }

std::string gen_utf8(FDP& f, size_t maxlen) {
  static const char* const pieces[] = {"a", "b", "Z", "0", " ", "_", "/", ".", "\xc3\xa9", "\xe2\x82\xac", "\xf0\x9f\x98\x80", "\xef\xbf\xbe", "\xed\x9f\xbf", "\xee\x80\x80", "\xf4\x8f\xbf\xbf", "\x01", "\x7f", "tok"};
  size_t n = f.ConsumeIntegralInRange<size_t>(0, maxlen);
  std::string s;
  while (s.size() < n) { const char* p = pieces[pick(f, sizeof pieces / sizeof *pieces)]; if (s.size() + strlen(p) > maxlen) break; s += p; }
  return s;
}

static std::string elem_(FDP& f, bool digit_first_ok, bool hyphen) {
  static const char first[] = "abcXYZ_";
  static const char rest[] = "abcXYZ_019";
  std::string e;
  if (digit_first_ok && f.ConsumeBool()) e += (char)('0' + pick(f, 10)); else e += first[pick(f, 7)];
  size_t n = pick(f, 4);
  for (size_t i = 0; i < n; i++) { if (hyphen && rare(f, 8)) e += '-'; else e += rest[pick(f, 10)]; }
  return e;
}
std::string gen_path(FDP& f) {
  size_t n = pick(f, 5);
  if (n == 0) return "/";
  std::string s;
  for (size_t i = 0; i < n; i++) { s += "/"; s += elem_(f, true, false); }
  return s;
}
std::string gen_iface(FDP& f) { std::string s = elem_(f, false, false); size_t n = 1 + pick(f, 3); for (size_t i = 0; i < n; i++) { s += "."; s += elem_(f, false, false); } return s; }
std::string gen_member(FDP& f) { return elem_(f, false, false); }
std::string gen_wellknown(FDP& f) { std::string s = elem_(f, false, true); size_t n = 1 + pick(f, 3); for (size_t i = 0; i < n; i++) { s += "."; s += elem_(f, false, true); } return s; }
std::string gen_unique(FDP& f) { std::string s = ":" + elem_(f, true, true); size_t n = 1 + pick(f, 2); for (size_t i = 0; i < n; i++) { s += "."; s += elem_(f, true, true); } return s; }

std::string gen_name_of_len(FDP& f, char kind, size_t len) {
  std::string s;
  if (len < 3) len = 3;
  if (kind == 'o') { s = "/"; while (s.size() < len) { s += (char)('a' + s.size() % 26); if (s.size() % 7 == 0 && s.size() + 1 < len) s += '/'; } if (s.back() == '/') s.back() = 'x'; return s; }
  if (kind == 'm') { while (s.size() < len) s += (char)('a' + s.size() % 26); return s; }
  if (kind == 'u') s = ":";
  s += 'a'; s += '.';
  while (s.size() < len) { s += (char)('a' + s.size() % 26); if (s.size() % 9 == 0 && s.size() + 1 < len) s += '.'; }
  if (s.back() == '.') s.back() = 'x';
  (void)f;
  return s;
}

std::string gen_sct(FDP& f, const GenCfg& c, int depth) {
  static const char basics[] = "ybnqiuxtdsogh";
  int nb = c.allow_h ? 13 : 12;
  int choice = depth >= c.max_depth ? 0 : (int)pick(f, 10);
  switch (choice) {
    case 6: return "a" + gen_sct(f, c, depth + 1);
    case 7: { std::string s = "("; size_t n = 1 + pick(f, 3); for (size_t i = 0; i < n; i++) s += gen_sct(f, c, depth + 1); return s + ")"; }
    case 8: { std::string s = "a{"; s += basics[pick(f, nb)]; s += gen_sct(f, c, depth + 2); return s + "}"; }
    case 9: return "v";
    default: return std::string(1, basics[pick(f, nb)]);
  }
}

std::string gen_sig(FDP& f, const GenCfg& c, int maxtypes) {
  std::string s; size_t n = pick(f, maxtypes + 1);
  for (size_t i = 0; i < n; i++) { std::string t = gen_sct(f, c, 0); if (s.size() + t.size() > 255) break; s += t; }
  return s;
}

uint64_t gen_scalar(FDP& f, char t) {
  int sz = fixed_size(t);
  if (t == 'b') return f.ConsumeBool();
  uint64_t mask = sz == 8 ? ~0ull : ((1ull << (sz * 8)) - 1);
  switch (pick(f, 8)) {
    case 0: return 0;
    case 1: return mask;                         // -1 / max unsigned
    case 2: return (mask >> 1);                  // max signed
    case 3: return (mask >> 1) + 1;              // min signed
    case 4: if (t == 'd') { static const uint64_t sp[] = {0x7ff8000000000000ull, 0x7ff0000000000000ull, 0xfff0000000000000ull, 0x8000000000000000ull, 0x7ff0000000000001ull, 0x0000000000000001ull, 0x3ff0000000000000ull}; return sp[pick(f, 7)]; } return 1;
    default: return f.ConsumeIntegral<uint64_t>() & mask;
  }
}

Value gen_value(FDP& f, const GenCfg& c, const std::string& sig, size_t& pos) {
  char t = sig[pos];
  if (is_fixed_type(t)) { pos++; return Value::basic(t, gen_scalar(f, t)); }
  if (t == 's') { pos++; return Value::str('s', gen_utf8(f, c.max_str)); }
  if (t == 'o') { pos++; return Value::str('o', gen_path(f)); }
  if (t == 'g') { pos++; GenCfg c2 = c; c2.max_depth = 3; return Value::str('g', gen_sig(f, c2, 3)); }
  if (t == 'v') { pos++; GenCfg c2 = c; c2.max_depth = c.max_depth - 1; if (c2.max_depth > 3) c2.max_depth = 3; if (c2.max_depth < 1) c2.max_depth = 1; std::string s = c.max_depth <= 1 ? std::string(1, "ysu"[pick(f, 3)]) : gen_sct(f, c2, 1); size_t p = 0; return Value::variant(gen_value(f, c2, s, p)); }
  if (t == 'a') {
    size_t el = sct_len(sig, pos + 1);
    Value v = Value::array(sig.substr(pos + 1, el));
    size_t n = pick(f, c.max_elems + 1);
    for (size_t i = 0; i < n; i++) { size_t p = 0; v.kids.push_back(gen_value(f, c, v.s, p)); }
    pos += 1 + el;
    return v;
  }
  char close = t == '(' ? ')' : '}';
  Value v; v.t = t; pos++;
  while (pos < sig.size() && sig[pos] != close) v.kids.push_back(gen_value(f, c, sig, pos));
  pos++;
  return v;
}
Value gen_value_of(FDP& f, const GenCfg& c, const std::string& sct) { size_t p = 0; return gen_value(f, c, sct, p); }

Value gen_deep_variant_chain(FDP& f, int depth) {
  // innermost basic value has exactly `depth` enclosing containers; mix of v, (..), av
  Value cur = Value::basic('y', 7);
  int arrays = 0, structs = 0;
  for (int i = 0; i < depth; i++) {
    int k = (int)pick(f, 3);
    if (k == 1 && structs < 30) { Value s = Value::strct(); s.kids.push_back(cur); cur = s; structs++; }
    else if (k == 2 && arrays < 30 && cur.t != 'y') { Value a = Value::array(cur.sig()); a.kids.push_back(cur); cur = a; arrays++; }
    else { cur = Value::variant(cur); arrays = 0; structs = 0; }
  }
  return cur;
}

Value gen_nested_array(int n, bool structs_too) {
  Value cur = Value::basic('i', 1);
  if (structs_too) for (int i = 0; i < n; i++) { Value s = Value::strct(); s.kids.push_back(cur); cur = s; }
  for (int i = 0; i < n; i++) { Value a = Value::array(cur.sig()); a.kids.push_back(cur); cur = a; }
  return cur;
}

Msg gen_msg(FDP& f, const MsgCfg& c) {
  Msg m;
  m.be = f.ConsumeBool();
  int tsel = (int)pick(f, c.allow_unknown_type ? 9 : 8);
  m.type = tsel < 8 ? 1 + tsel % 4 : (uint8_t)f.ConsumeIntegralInRange<int>(5, 255);
  m.flags = rare(f, 3) ? f.ConsumeIntegral<uint8_t>() : (uint8_t)pick(f, 8);
  m.serial = rare(f, 4) ? f.ConsumeIntegral<uint32_t>() : 1 + (uint32_t)pick(f, 1000);
  if (m.serial == 0) m.serial = 1;
  std::vector<Field> fs;
  auto addS = [&](uint8_t code, char t, const std::string& s) { Field x; x.code = code; x.v = Value::str(t, s); fs.push_back(x); };
  auto addU = [&](uint8_t code, uint32_t v) { Field x; x.code = code; x.v = Value::basic('u', v); fs.push_back(x); };
  bool need_path = m.type == T_CALL || m.type == T_SIGNAL, need_if = m.type == T_SIGNAL, need_mem = need_path;
  bool need_err = m.type == T_ERROR, need_rs = m.type == T_ERROR || m.type == T_RETURN;
  if (need_path || rare(f, 4)) addS(F_PATH, 'o', gen_path(f));
  if (need_if || rare(f, 2)) addS(F_INTERFACE, 's', gen_iface(f));
  if (need_mem || rare(f, 4)) addS(F_MEMBER, 's', gen_member(f));
  if (need_err || rare(f, 6)) addS(F_ERROR_NAME, 's', gen_iface(f));
  if (need_rs || rare(f, 6)) { uint32_t r = rare(f, 3) ? f.ConsumeIntegral<uint32_t>() : 1 + (uint32_t)pick(f, 100); addU(F_REPLY_SERIAL, r ? r : 1); }
  if (rare(f, 2)) addS(F_DESTINATION, 's', f.ConsumeBool() ? gen_wellknown(f) : gen_unique(f));
  if (rare(f, 3)) addS(F_SENDER, 's', f.ConsumeBool() ? gen_wellknown(f) : gen_unique(f));
  if (rare(f, 8)) addS(F_CONTAINER_INSTANCE, 'o', gen_path(f));
  // body
  size_t nb = pick(f, c.max_body_vals + 1);
  std::string sig;
  for (size_t i = 0; i < nb; i++) {
    std::string t = gen_sct(f, c.g, 0);
    if (sig.size() + t.size() > 255) break;
    sig += t;
    m.body.push_back(gen_value_of(f, c.g, t));
  }
  if (!sig.empty() || rare(f, 8)) addS(F_SIGNATURE, 'g', sig);
  if (c.allow_unknown_fields) {
    size_t nu = rare(f, 4) ? 1 + pick(f, 2) : 0;
    for (size_t i = 0; i < nu; i++) {
      Field x; x.code = (uint8_t)f.ConsumeIntegralInRange<int>(11, 255);
      GenCfg g2 = c.g; g2.max_depth = 3;
      x.v = gen_value_of(f, g2, gen_sct(f, g2, 1));
      fs.push_back(x);
    }
  }
  if (c.shuffle && f.ConsumeBool()) for (size_t i = fs.size(); i > 1; i--) std::swap(fs[i - 1], fs[pick(f, i)]);
  m.fields = fs;
  return m;
}

const char* const kCorruptionOps[] = {
  "len32-delta", "len32-limit", "pad-nonzero", "bool-range", "utf8-byte", "str-nul", "siglen", "sigbyte", "fieldcode", "fixed-byte",
  "pathbyte", "namebyte", "truncate", "append", "hdr-endian", "hdr-type0", "hdr-version", "hdr-serial0", "flip-any",
  "dup-field", "drop-field", "retype-field", "add-field0", "swap-fields", "sig-swap"};
const int kNumCorruptionOps = sizeof kCorruptionOps / sizeof *kCorruptionOps;

static bool pick_mark_(FDP& f, const Layout& lay, MarkKind k, Mark& out) {
  std::vector<const Mark*> v;
  for (auto& m : lay.marks) if (m.kind == k) v.push_back(&m);
  if (v.empty()) return false;
  out = *v[pick(f, v.size())];
  return true;
}
static void wr32_(std::string& b, size_t off, uint32_t v, bool be) { for (int i = 0; i < 4; i++) { int sh = be ? (3 - i) * 8 : i * 8; b[off + i] = (char)((v >> sh) & 0xff); } }
static uint32_t rd32b_(const std::string& b, size_t off, bool be) { uint32_t v = 0; for (int i = 0; i < 4; i++) { int sh = be ? (3 - i) * 8 : i * 8; v |= (uint32_t)(unsigned char)b[off + i] << sh; } return v; }

std::string corrupt(FDP& f, std::string& b, const Layout& lay) {
  if (b.size() < 16) return "";
  bool be = b[0] == 'B';
  int op = (int)pick(f, 20);
  Mark m;
  switch (op) {
    case 0: if (!pick_mark_(f, lay, MK_LEN32, m)) return ""; { int d = (int)pick(f, 17) - 8; if (d == 0) d = 1; wr32_(b, m.off, rd32b_(b, m.off, be) + d, be); } return kCorruptionOps[0];
    case 1: if (!pick_mark_(f, lay, MK_LEN32, m)) return ""; { static const uint32_t lim[] = {0xffffffffu, 0x80000000u, 0x7fffffffu, 1u << 26, (1u << 26) + 1, 1u << 27, (1u << 27) + 1, (1u << 27) - 8, 0x10000, 0}; wr32_(b, m.off, lim[pick(f, 10)], be); } return kCorruptionOps[1];
    case 2: if (!pick_mark_(f, lay, MK_PAD, m)) return ""; b[m.off + pick(f, m.len)] = (char)(1 + pick(f, 255)); return kCorruptionOps[2];
    case 3: if (!pick_mark_(f, lay, MK_BOOL, m)) return ""; { static const uint32_t bv[] = {2, 0x100, 0x10000, 0x1000000, 0xffffffffu, 0x80000001u}; wr32_(b, m.off, bv[pick(f, 6)], be); } return kCorruptionOps[3];
    case 4: if (!pick_mark_(f, lay, MK_STRBYTE, m)) return ""; { static const unsigned char bad[] = {0x00, 0x80, 0xbf, 0xc0, 0xc1, 0xf5, 0xff, 0xed, 0xe0, 0xf0, 0xc3}; b[m.off + pick(f, m.len)] = (char)bad[pick(f, 11)]; } return kCorruptionOps[4];
    case 5: if (!pick_mark_(f, lay, MK_STRNUL, m)) return ""; b[m.off] = (char)(1 + pick(f, 255)); return kCorruptionOps[5];
    case 6: if (!pick_mark_(f, lay, MK_SIGLEN, m)) return ""; b[m.off] = (char)((unsigned char)b[m.off] + (int)pick(f, 5) - 2 + (rare(f, 4) ? 200 : 0)); return kCorruptionOps[6];
    case 7: if (!pick_mark_(f, lay, MK_SIGBYTE, m)) return ""; { static const char codes[] = "ybnqiuxtdsoghav(){}zre\0\x80"; b[m.off + pick(f, m.len)] = codes[pick(f, 24)]; } return kCorruptionOps[7];
    case 8: if (!pick_mark_(f, lay, MK_FIELDCODE, m)) return ""; { int w = (int)pick(f, 4); b[m.off] = w == 0 ? 0 : w == 1 ? (char)(1 + pick(f, 10)) : (char)f.ConsumeIntegral<uint8_t>(); } return kCorruptionOps[8];
    case 9: if (!pick_mark_(f, lay, MK_FIXED, m)) return ""; b[m.off + pick(f, m.len)] = (char)f.ConsumeIntegral<uint8_t>(); return kCorruptionOps[9];
    case 10: if (!pick_mark_(f, lay, MK_PATHBYTE, m)) return ""; { static const char bad[] = "/.-: \0\x80~a"; b[m.off + pick(f, m.len)] = bad[pick(f, 9)]; } return kCorruptionOps[10];
    case 11: if (!pick_mark_(f, lay, MK_NAMEBYTE, m)) return ""; { static const char bad[] = "./-: \0\x80" "9a"; b[m.off + pick(f, m.len)] = bad[pick(f, 9)]; } return kCorruptionOps[11];
    case 12: { size_t cut; int w = (int)pick(f, 3); if (w == 0 || lay.marks.empty()) cut = pick(f, b.size()); else { const Mark& k = lay.marks[pick(f, lay.marks.size())]; cut = k.off + (w == 1 ? 0 : k.len); } if (cut >= b.size()) cut = b.size() - 1; b.resize(cut); } return kCorruptionOps[12];
    case 13: { size_t n = 1 + pick(f, 24); std::string extra = f.ConsumeBytesAsString(n); extra.resize(n, '\0'); b += extra; } return kCorruptionOps[13];
    case 14: { static const char e[] = {'L', 'b', 0, 'l' ^ 'B', 'B', 'l'}; b[0] = e[pick(f, 6)]; } return kCorruptionOps[14];
    case 15: b[1] = 0; return kCorruptionOps[15];
    case 16: b[3] = (char)(rare(f, 3) ? 0 : pick(f, 2) ? 2 : f.ConsumeIntegral<uint8_t>()); return kCorruptionOps[16];
    case 17: wr32_(b, 8, 0, be); return kCorruptionOps[17];
    case 19: if (!pick_mark_(f, lay, MK_SIGBYTE, m) || m.len < 2) return ""; { size_t i = pick(f, m.len), j = pick(f, m.len); std::swap(b[m.off + i], b[m.off + j]); } return kCorruptionOps[24];
    default: { size_t pos = pick(f, b.size()); b[pos] = (char)(b[pos] ^ (1 << pick(f, 8))); } return kCorruptionOps[18];
  }
}

std::string corrupt_struct(FDP& f, Msg& m) {
  int op = (int)pick(f, 5);
  switch (op) {
    case 0: if (m.fields.empty()) return ""; { Field x = m.fields[pick(f, m.fields.size())]; m.fields.insert(m.fields.begin() + pick(f, m.fields.size() + 1), x); } return kCorruptionOps[19];
    case 1: if (m.fields.empty()) return ""; m.fields.erase(m.fields.begin() + pick(f, m.fields.size())); return kCorruptionOps[20];
    case 2: if (m.fields.empty()) return ""; { Field& x = m.fields[pick(f, m.fields.size())]; static const char ts[] = "souygv"; char t = ts[pick(f, 6)]; if (t == 'u' || t == 'y') x.v = Value::basic(t, 5); else if (t == 'v') x.v = Value::variant(x.v); else x.v = Value::str(t, t == 'o' ? "/a" : t == 'g' ? "i" : x.v.s.empty() ? "a.b" : x.v.s); } return kCorruptionOps[21];
    case 3: { Field x; x.code = 0; x.v = Value::basic('y', 1); m.fields.insert(m.fields.begin() + pick(f, m.fields.size() + 1), x); } return kCorruptionOps[22];
    default: if (m.fields.size() < 2) return ""; std::swap(m.fields[pick(f, m.fields.size())], m.fields[pick(f, m.fields.size())]); return kCorruptionOps[23];
  }
}

}  // namespace vp
