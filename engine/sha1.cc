#include "sha1.h"
#include <cstdint>
#include <cstring>
#include <cstdio>
namespace vp {
static uint32_t rol(uint32_t v, int n) { return (v << n) | (v >> (32 - n)); }
std::string sha1_hex(const std::string& data) {
  uint32_t h0 = 0x67452301, h1 = 0xEFCDAB89, h2 = 0x98BADCFE, h3 = 0x10325476, h4 = 0xC3D2E1F0;
  std::string m = data;
  uint64_t bits = (uint64_t)data.size() * 8;
  m += (char)0x80;
  while (m.size() % 64 != 56) m += (char)0;
  for (int i = 7; i >= 0; i--) m += (char)((bits >> (i * 8)) & 0xff);
  for (size_t off = 0; off < m.size(); off += 64) {
    uint32_t w[80];
    for (int i = 0; i < 16; i++) w[i] = ((uint32_t)(unsigned char)m[off + 4 * i] << 24) | ((uint32_t)(unsigned char)m[off + 4 * i + 1] << 16) | ((uint32_t)(unsigned char)m[off + 4 * i + 2] << 8) | (uint32_t)(unsigned char)m[off + 4 * i + 3];
    for (int i = 16; i < 80; i++) w[i] = rol(w[i - 3] ^ w[i - 8] ^ w[i - 14] ^ w[i - 16], 1);
    uint32_t a = h0, b = h1, c = h2, d = h3, e = h4;
    for (int i = 0; i < 80; i++) {
      uint32_t f, k;
      if (i < 20) { f = (b & c) | (~b & d); k = 0x5A827999; }
      else if (i < 40) { f = b ^ c ^ d; k = 0x6ED9EBA1; }
      else if (i < 60) { f = (b & c) | (b & d) | (c & d); k = 0x8F1BBCDC; }
      else { f = b ^ c ^ d; k = 0xCA62C1D6; }
      uint32_t t = rol(a, 5) + f + e + k + w[i];
      e = d; d = c; c = rol(b, 30); b = a; a = t;
    }
    h0 += a; h1 += b; h2 += c; h3 += d; h4 += e;
  }
  char buf[41];
  snprintf(buf, sizeof buf, "%08x%08x%08x%08x%08x", h0, h1, h2, h3, h4);
  return buf;
}
}
