// Generators: every random choice comes from the fuzzer input through
// FuzzedDataProvider, so shrinking and replay work on the input bytes.
#pragma once
#include <fuzzer/FuzzedDataProvider.h>
#include <string>
#include <vector>
#include "wire.h"

namespace vp {

typedef FuzzedDataProvider FDP;

struct GenCfg {
  int max_depth = 5;        // container nesting of ordinary values
  int max_elems = 4;
  size_t max_str = 24;
  bool allow_h = true;      // UNIX_FD type in signatures
};

size_t pick(FDP& f, size_t n);                  // uniform in [0,n); 0 when the input is exhausted
bool rare(FDP& f, size_t n);                    // true with probability 1/n; false when the input is exhausted
std::string gen_utf8(FDP& f, size_t maxlen);    // valid UTF-8 without NUL
std::string gen_path(FDP& f);
std::string gen_iface(FDP& f);
std::string gen_member(FDP& f);
std::string gen_wellknown(FDP& f);
std::string gen_unique(FDP& f);
std::string gen_name_of_len(FDP& f, char kind, size_t len);  // 'i' iface/error, 'm' member, 'b' wellknown, 'u' unique, 'o' path: valid name with exactly len bytes (len>=3)

std::string gen_sct(FDP& f, const GenCfg& c, int depth);      // one single complete type
std::string gen_sig(FDP& f, const GenCfg& c, int maxtypes);   // 0..maxtypes complete types
Value gen_value(FDP& f, const GenCfg& c, const std::string& sig, size_t& pos);
Value gen_value_of(FDP& f, const GenCfg& c, const std::string& sct);
uint64_t gen_scalar(FDP& f, char t);            // interesting values for a fixed type

// Special shapes near the limits.
Value gen_deep_variant_chain(FDP& f, int depth);       // value whose maximum enclosing-container count is exactly depth (depth>=1)
Value gen_nested_array(int n, bool structs_too);       // n nested arrays (and n structs) with one innermost element

// A valid message: type, mandatory + optional fields in generated order, unknown
// fields, flags, byte order, body.
struct MsgCfg { bool allow_unknown_fields = true; bool allow_unknown_type = true; bool shuffle = true; int max_body_vals = 4; bool allow_fds_field = true; GenCfg g; };
Msg gen_msg(FDP& f, const MsgCfg& c);

// Single-site corruption of an encoded valid message.  Returns a short name of
// the operator applied ("" if none applicable).
std::string corrupt(FDP& f, std::string& bytes, const Layout& lay);
// Structural corruption applied to the Msg before encoding.
std::string corrupt_struct(FDP& f, Msg& m);
extern const char* const kCorruptionOps[];
extern const int kNumCorruptionOps;

}  // namespace vp
