#include "matchmodel.h"
#include "grammar.h"
#include "busmodel.h"
#include <vector>

namespace vp {

bool MatchRule::operator==(const MatchRule& o) const {
  return type == o.type && has_sender == o.has_sender && has_iface == o.has_iface && has_member == o.has_member && has_path == o.has_path &&
         has_path_ns == o.has_path_ns && has_dest == o.has_dest && has_arg0ns == o.has_arg0ns && sender == o.sender && iface == o.iface && member == o.member &&
         path == o.path && path_ns == o.path_ns && dest == o.dest && arg0ns == o.arg0ns && args == o.args && argpaths == o.argpaths && eavesdrop == o.eavesdrop;
}

std::string MatchRule::show() const {
  static const char* tn[] = {"", "method_call", "method_return", "error", "signal"};
  std::string s;
  if (type) s += std::string("type=") + tn[type] + " ";
  if (has_sender) s += "sender=" + sender + " ";
  if (has_iface) s += "interface=" + iface + " ";
  if (has_member) s += "member=" + member + " ";
  if (has_path) s += "path=" + path + " ";
  if (has_path_ns) s += "path_namespace=" + path_ns + " ";
  if (has_dest) s += "destination=" + dest + " ";
  if (has_arg0ns) s += "arg0namespace=" + arg0ns + " ";
  for (auto& kv : args) s += "arg" + std::to_string(kv.first) + "='" + kv.second + "' ";
  for (auto& kv : argpaths) s += "arg" + std::to_string(kv.first) + "path='" + kv.second + "' ";
  if (eavesdrop) s += "eavesdrop ";
  return s;
}

RuleParse parse_match_rule(const std::string& t, MatchRule* out, std::string* why) {
  std::string dummy; if (!why) why = &dummy;
  MatchRule r;
  if (t.size() > 1024) { *why = "longer than 1024 bytes"; return RuleParse::TooLong; }   // [S/D] DBUS_MAXIMUM_MATCH_RULE_LENGTH
  bool unspec = false; std::string unspec_why;
  auto U = [&](const char* w) { if (!unspec) { unspec = true; unspec_why = w; } };
  size_t i = 0, n = t.size();
  int npairs = 0;
  bool seen_type = false, seen_eaves = false;
  if (n == 0) { if (out) *out = r; return RuleParse::Ok; }
  while (i <= n) {
    // key: up to '='
    size_t ks = i;
    while (i < n && t[i] != '=' && t[i] != ',') i++;
    std::string key = t.substr(ks, i - ks);
    if (i >= n || t[i] == ',') {
      // segment without '='
      if (key.empty()) { U("empty segment (leading/trailing/double comma)"); if (i >= n) break; i++; continue; }   // [U]
      bool ws = true; for (char c : key) if (c != ' ' && c != '\t' && c != '\n' && c != '\r') ws = false;
      if (ws) { U("whitespace-only segment"); if (i >= n) break; i++; continue; }
      *why = "segment without '='"; return RuleParse::Invalid;   // [S] rules are key/value pairs
    }
    i++;  // '='
    // value: quoted sections and bare characters, up to an unquoted comma  [S quoting paragraph]
    std::string val;
    bool inq = false;
    while (i < n) {
      char c = t[i];
      if (inq) { if (c == '\'') inq = false; else val += c; i++; continue; }
      if (c == '\'') { inq = true; i++; continue; }
      if (c == '\\' && i + 1 < n && t[i + 1] == '\'') { val += '\''; i += 2; continue; }
      if (c == ',') break;
      val += c; i++;
    }
    if (inq) { *why = "unterminated quote"; return RuleParse::Invalid; }
    npairs++;
    if (npairs > 16) U("more than 16 key/value pairs");   // [U] libdbus' tokenizer limit, the specification states none
    for (char c : key) if (c == ' ' || c == '\t' || c == '\n' || c == '\r') U("whitespace in key");   // [U]
    if (key.empty()) U("empty key");
    if (!unspec) {
      if (key == "type") {
        if (seen_type) { *why = "type twice"; return RuleParse::Invalid; }
        seen_type = true;
        if (val == "signal") r.type = T_SIGNAL; else if (val == "method_call") r.type = T_CALL; else if (val == "method_return") r.type = T_RETURN; else if (val == "error") r.type = T_ERROR;
        else { *why = "bad type value"; return RuleParse::Invalid; }
      } else if (key == "sender") {
        if (r.has_sender) { *why = "sender twice"; return RuleParse::Invalid; }
        if (!is_bus_name(val)) { if (unique_name_short_form(val)) U("KF:unique-name-short"); else { *why = "sender not a bus name"; return RuleParse::Invalid; } }
        r.has_sender = true; r.sender = val;
      } else if (key == "interface") {
        if (r.has_iface) { *why = "interface twice"; return RuleParse::Invalid; }
        if (!is_interface(val)) { *why = "bad interface"; return RuleParse::Invalid; }
        r.has_iface = true; r.iface = val;
      } else if (key == "member") {
        if (r.has_member) { *why = "member twice"; return RuleParse::Invalid; }
        if (!is_member(val)) { *why = "bad member"; return RuleParse::Invalid; }
        r.has_member = true; r.member = val;
      } else if (key == "path" || key == "path_namespace") {
        if (r.has_path || r.has_path_ns) { *why = "path/path_namespace twice or both"; return RuleParse::Invalid; }   // [S] both not allowed
        if (!is_object_path(val)) { *why = "bad path"; return RuleParse::Invalid; }
        if (key == "path") { r.has_path = true; r.path = val; } else { r.has_path_ns = true; r.path_ns = val; }
      } else if (key == "destination") {
        if (r.has_dest) { *why = "destination twice"; return RuleParse::Invalid; }
        if (!is_bus_name(val)) { if (unique_name_short_form(val)) U("KF:unique-name-short"); else { *why = "destination not a bus name"; return RuleParse::Invalid; } }
        if (!val.empty() && val[0] != ':') U("destination= with a well-known name (the table says: a unique name)");   // [U]
        r.has_dest = true; r.dest = val;
      } else if (key == "eavesdrop") {
        if (seen_eaves) U("eavesdrop given twice");   // [D] libdbus allows it deliberately; the specification is silent
        seen_eaves = true;
        if (val == "true") r.eavesdrop = true; else if (val == "false") r.eavesdrop = false; else { *why = "bad eavesdrop value"; return RuleParse::Invalid; }
      } else if (key.compare(0, 3, "arg") == 0) {
        size_t j = 3; long num = 0; size_t nd = 0;
        while (j < key.size() && key[j] >= '0' && key[j] <= '9') { num = num * 10 + (key[j] - '0'); if (num > 100000) num = 100000; j++; nd++; }
        if (nd == 0) { *why = "arg without number"; return RuleParse::Invalid; }
        if (nd > 1 && key[3] == '0') U("argument number with leading zero");   // [U]
        std::string suffix = key.substr(j);
        if (num > 63) { *why = "argument number above 63"; return RuleParse::Invalid; }   // [S]
        if (suffix.empty()) {
          if (r.args.count((int)num)) { *why = "argument key twice"; return RuleParse::Invalid; }
          if (r.argpaths.count((int)num) || (num == 0 && r.has_arg0ns)) U("two different kinds of match on the same argument");   // [U]
          r.args[(int)num] = val;
        } else if (suffix == "path") {
          if (r.argpaths.count((int)num)) { *why = "argument key twice"; return RuleParse::Invalid; }
          if (r.args.count((int)num) || (num == 0 && r.has_arg0ns)) U("two different kinds of match on the same argument");
          r.argpaths[(int)num] = val;
        } else if (suffix == "namespace" && num == 0 && nd == 1) {
          if (r.has_arg0ns) { *why = "argument key twice"; return RuleParse::Invalid; }
          if (r.args.count(0) || r.argpaths.count(0)) U("two different kinds of match on the same argument");
          if (!val.empty() && val[0] == ':') U("arg0namespace with a unique-name prefix");   // [U]
          else if (!is_bus_namespace(val)) { *why = "bad arg0namespace"; return RuleParse::Invalid; }
          r.has_arg0ns = true; r.arg0ns = val;
        } else { *why = "junk after argument number"; return RuleParse::Invalid; }
        if (!is_utf8(val)) U("argument value is not UTF-8");
      } else { *why = "unknown key"; return RuleParse::Invalid; }   // [S] the table lists the keys
    }
    if (i >= n) break;
    i++;  // ','
    if (i >= n) { U("trailing comma"); break; }
  }
  if (unspec) { *why = unspec_why; return RuleParse::Unspec; }
  if (out) *out = r;
  return RuleParse::Ok;
}

static std::string q_(const std::string& v) { std::string o = "'"; for (char ch : v) { if (ch == '\'') o += "'\\''"; else o += ch; } return o + "'"; }
std::string render_rule(const MatchRule& r) {
  static const char* tn[] = {"", "method_call", "method_return", "error", "signal"};
  std::vector<std::string> kv;
  if (r.type) kv.push_back(std::string("type='") + tn[r.type] + "'");
  if (r.has_sender) kv.push_back("sender=" + q_(r.sender));
  if (r.has_iface) kv.push_back("interface=" + q_(r.iface));
  if (r.has_member) kv.push_back("member=" + q_(r.member));
  if (r.has_path) kv.push_back("path=" + q_(r.path));
  if (r.has_path_ns) kv.push_back("path_namespace=" + q_(r.path_ns));
  if (r.has_dest) kv.push_back("destination=" + q_(r.dest));
  if (r.has_arg0ns) kv.push_back("arg0namespace=" + q_(r.arg0ns));
  for (auto& a : r.args) kv.push_back("arg" + std::to_string(a.first) + "=" + q_(a.second));
  for (auto& a : r.argpaths) kv.push_back("arg" + std::to_string(a.first) + "path=" + q_(a.second));
  if (r.eavesdrop) kv.push_back("eavesdrop='true'");
  std::string s; for (size_t i = 0; i < kv.size(); i++) { if (i) s += ","; s += kv[i]; }
  return s;
}

static bool path_ns_match(const std::string& ns, const std::string& p) {
  if (p == ns) return true;
  if (ns == "/") return !p.empty() && p[0] == '/';
  return p.size() > ns.size() && p.compare(0, ns.size(), ns) == 0 && p[ns.size()] == '/';
}

bool rule_matches(const MatchRule& r, const Msg& m, const MatchCtx& cx) {
  if (r.type && m.type != r.type) return false;
  if (r.has_iface) { if (!m.has(F_INTERFACE) || m.fstr(F_INTERFACE) != r.iface) return false; }   // [S] absent interface never matches
  if (r.has_member) { if (!m.has(F_MEMBER) || m.fstr(F_MEMBER) != r.member) return false; }
  if (r.has_path) { if (!m.has(F_PATH) || m.fstr(F_PATH) != r.path) return false; }
  if (r.has_path_ns) { if (!m.has(F_PATH) || !path_ns_match(r.path_ns, m.fstr(F_PATH))) return false; }
  if (r.has_sender) {
    if (r.sender == BUS_NAME) { if (cx.sender_unique != BUS_NAME) return false; }
    else { std::string o = cx.owner_of(r.sender); if (o.empty() || o != cx.sender_unique) return false; }
  }
  bool has_dest = m.has(F_DESTINATION);
  if (has_dest && !r.eavesdrop) return false;   // [S 1.5.6] unicast messages only match rules that ask for eavesdropping
  if (r.has_dest) {
    if (!has_dest) return false;
    std::string o = cx.addressed_unique.empty() ? m.fstr(F_DESTINATION) : cx.addressed_unique;
    std::string want = cx.owner_of(r.dest);
    if (want.empty()) want = r.dest;
    if (o != want) return false;
  }
  for (auto& kv : r.args) {
    if ((size_t)kv.first >= m.body.size()) return false;
    const Value& a = m.body[kv.first];
    if (a.t != 's' || a.s != kv.second) return false;   // [S] only STRING arguments
  }
  for (auto& kv : r.argpaths) {
    if ((size_t)kv.first >= m.body.size()) return false;
    const Value& a = m.body[kv.first];
    if (a.t != 's' && a.t != 'o') return false;           // [S] STRING or OBJECT_PATH
    const std::string& x = a.s; const std::string& v = kv.second;
    bool ok = x == v;
    if (!ok && !v.empty() && v.back() == '/' && x.size() >= v.size() && x.compare(0, v.size(), v) == 0) ok = true;   // rule value ends with '/' and is a prefix of the argument
    if (!ok && !x.empty() && x.back() == '/' && v.size() >= x.size() && v.compare(0, x.size(), x) == 0) ok = true;   // argument ends with '/' and is a prefix of the rule value
    if (!ok) return false;
  }
  if (r.has_arg0ns) {
    if (m.body.empty() || m.body[0].t != 's') return false;
    const std::string& x = m.body[0].s; const std::string& v = r.arg0ns;
    if (!(x == v || (x.size() > v.size() && x.compare(0, v.size(), v) == 0 && x[v.size()] == '.'))) return false;
  }
  return true;
}

}  // namespace vp
