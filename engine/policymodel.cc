#include "policymodel.h"

namespace vp {

static const char* tname(int t) { static const char* n[] = {"*", "method_call", "method_return", "error", "signal"}; return n[t]; }

std::string PRule::xml() const {
  std::string s = allow ? "<allow" : "<deny";
  auto A = [&](const std::string& k, const std::string& v) { s += " " + k + "=\"" + v + "\""; };
  if (kind == OWN) { if (own_star) A("own", "*"); else A(own_prefix ? "own_prefix" : "own", own); return s + "/>"; }
  std::string p = kind == SEND ? "send_" : "receive_";
  A(p + "type", tname(type));   // always present ("*" = any) so that the rule is unambiguously a send or a receive rule
  if (!iface.empty()) A(p + "interface", iface);
  if (!member.empty()) A(p + "member", member);
  if (!path.empty()) A(p + "path", path);
  if (!error.empty()) A(p + "error", error);
  if (kind == SEND) { if (dest_star) A("send_destination", "*"); else if (!dest.empty()) A(dest_prefix ? "send_destination_prefix" : "send_destination", dest); }
  else { if (dest_star) A("receive_sender", "*"); else if (!dest.empty()) A("receive_sender", dest); }
  if (kind == SEND && broadcast != Tri3::Any) A("send_broadcast", broadcast == Tri3::True ? "true" : "false");
  if (has_reqreply) A(p + "requested_reply", reqreply ? "true" : "false");
  if (has_eavesdrop) A("eavesdrop", eavesdrop ? "true" : "false");
  if (min_fds >= 0) A("min_fds", std::to_string(min_fds));
  if (max_fds >= 0) A("max_fds", std::to_string(max_fds));
  return s + "/>";
}

std::string PolicyCfg::xml() const {
  std::string s = "<policy context=\"default\">\n  <allow user=\"*\"/>\n";
  for (auto& r : deflt) s += "  " + r.xml() + "\n";
  s += "</policy>\n";
  for (auto& g : groups) { s += "<policy group=\"" + g.first + "\">\n"; for (auto& r : g.second) s += "  " + r.xml() + "\n"; s += "</policy>\n"; }
  for (auto& u : users) { s += "<policy user=\"" + u.first + "\">\n"; for (auto& r : u.second) s += "  " + r.xml() + "\n"; s += "</policy>\n"; }
  s += "<policy context=\"mandatory\">\n";
  for (auto& r : mandatory) s += "  " + r.xml() + "\n";
  s += scaffold_mandatory_xml;
  s += "</policy>\n";
  return s;
}

std::vector<PRule> PolicyCfg::rules_for(const std::string& user, const std::vector<std::string>& gs) const {
  std::vector<PRule> r = deflt;                                                   // [M] default first
  for (auto& g : groups) for (auto& mine : gs) if (g.first == mine) r.insert(r.end(), g.second.begin(), g.second.end());   // [M] then groups
  for (auto& u : users) if (u.first == user) r.insert(r.end(), u.second.begin(), u.second.end());                           // [M] then user
  r.insert(r.end(), mandatory.begin(), mandatory.end());                          // [M] mandatory last
  r.insert(r.end(), scaffold.begin(), scaffold.end());
  return r;
}

// words prefix: "a.b" matches "a.b" and "a.b.c", not "a.bc"   [M own_prefix / send_destination_prefix]
static bool words_prefix(const std::string& name, const std::string& p) {
  return name == p || (name.size() > p.size() && name.compare(0, p.size(), p) == 0 && name[p.size()] == '.');
}

// 1 = connection holds name as primary, 2 = only queued, 0 = not at all
static int holds(const BusModel& reg, int conn, const std::string& name) {
  if (!name.empty() && name[0] == ':') return reg.conn_by_unique(name) == conn ? 1 : 0;
  auto it = reg.q.find(name);
  if (it == reg.q.end()) return 0;
  for (size_t i = 0; i < it->second.size(); i++) if (it->second[i].conn == conn) return i == 0 ? 1 : 2;
  return 0;
}

// common header-field part.  Returns false if the rule does not match.
static bool fields_match(const PRule& r, const Msg& m) {
  if (r.type && m.type != r.type) return false;
  if (!r.path.empty() && m.has(F_PATH) && m.fstr(F_PATH) != r.path) return false;            // [D] an absent field does not prevent a match
  if (!r.iface.empty()) {
    if (!m.has(F_INTERFACE)) { if (r.allow) return false; }                                    // [D] no interface: allow rules skip, deny rules apply
    else if (m.fstr(F_INTERFACE) != r.iface) return false;
  }
  if (!r.member.empty() && m.has(F_MEMBER) && m.fstr(F_MEMBER) != r.member) return false;
  if (!r.error.empty() && m.has(F_ERROR_NAME) && m.fstr(F_ERROR_NAME) != r.error) return false;
  return true;
}

static bool reply_gate(const PRule& r, const Msg& m, bool requested) {
  if (m.fu32(F_REPLY_SERIAL) == 0) return true;   // [M] only makes sense for replies
  bool rr = r.has_reqreply ? r.reqreply : r.allow;   // [M] defaults: allow -> true, deny -> false
  if (!requested && r.allow && rr && !(r.has_eavesdrop && r.eavesdrop)) return false;   // allow + requested_reply=true: only requested replies
  if (requested && !r.allow && !rr) return false;                                          // deny + requested_reply=false: only unrequested replies
  return true;
}

static bool fds_gate(const PRule& r, int nfds) {
  if (r.min_fds >= 0 && nfds < r.min_fds) return false;
  if (r.max_fds >= 0 && nfds > r.max_fds) return false;
  return true;
}

// matches: 1 yes, 0 no, -1 unknown ([U] queued-but-not-primary for plain send_destination / receive_sender)
static int send_rule_matches(const PRule& r, const SendQ& q, const BusModel& reg) {
  const Msg& m = *q.m;
  if (r.kind != PRule::SEND) return 0;
  if (r.type && m.type != r.type) return 0;
  if (!reply_gate(r, m, q.requested_reply)) return 0;
  if (!fields_match(r, m)) return 0;
  if (r.broadcast != Tri3::Any) {
    bool bc = !m.has(F_DESTINATION) && m.type == T_SIGNAL;
    if (bc && r.broadcast == Tri3::False) return 0;
    if (!bc && r.broadcast == Tri3::True) return 0;
  }
  int res = 1;
  if (!r.dest.empty() && !r.dest_star) {
    if (q.receiver < 0) {
      std::string d = m.fstr(F_DESTINATION);
      if (!m.has(F_DESTINATION)) return 0;
      if (r.dest_prefix ? !words_prefix(d, r.dest) : d != r.dest) return 0;
    } else if (r.dest_prefix) {
      bool any = false;
      for (auto& kv : reg.q) if (words_prefix(kv.first, r.dest) && holds(reg, q.receiver, kv.first)) any = true;   // [M] primary or queued owner
      if (!any) return 0;
    } else {
      int hld = holds(reg, q.receiver, r.dest);
      if (hld == 0) return 0;
      // [M] "the *owner* of the given name"; the send_destination_prefix paragraph says a prefix rule covers primary and queued owners
      // and "works the same as if" separate send_destination rules had been written, so a queued owner is an owner here too
    }
  }
  if (!fds_gate(r, q.nfds)) return 0;
  return res;
}

static int recv_rule_matches(const PRule& r, const RecvQ& q, const BusModel& reg) {
  const Msg& m = *q.m;
  if (r.kind != PRule::RECEIVE) return 0;
  if (r.type && m.type != r.type) return 0;
  bool ev = r.has_eavesdrop && r.eavesdrop;
  if (q.eavesdropping && r.allow && !ev) return 0;     // [M] allow without eavesdrop=true does not apply while eavesdropping
  if (!q.eavesdropping && !r.allow && ev) return 0;    // [M] deny with eavesdrop=true applies only while eavesdropping
  if (!reply_gate(r, m, q.requested_reply)) return 0;
  if (!fields_match(r, m)) return 0;
  int res = 1;
  if (!r.dest.empty() && !r.dest_star) {
    if (q.sender < 0) { if (r.dest != BUS_NAME) return 0; }
    else { int hld = holds(reg, q.sender, r.dest); if (hld == 0) return 0; }   // [M] same notion of owner as send_destination (one sentence covers both)
  }
  if (!fds_gate(r, q.nfds)) return 0;
  return res;
}

template <class Q, class F>
static Verd eval(const std::vector<PRule>& rules, const Q& q, const BusModel& reg, F matcher, int* conflict) {
  // last matching rule wins; rules whose match is unknown make the verdict unknown if they could change it
  Verd v = Verd::Deny;   // [M] nothing allowed by default
  int nmatch_allow = 0, nmatch_deny = 0;
  for (auto& r : rules) {
    int mt = matcher(r, q, reg);
    if (mt == 1) { v = r.allow ? Verd::Allow : Verd::Deny; if (r.allow) nmatch_allow++; else nmatch_deny++; }
    else if (mt == -1) { Verd would = r.allow ? Verd::Allow : Verd::Deny; if (v != would) v = Verd::Unknown; }
  }
  if (conflict) *conflict = (nmatch_allow > 0 && nmatch_deny > 0) ? 1 : 0;
  return v;
}

Verd can_send(const std::vector<PRule>& rules, const SendQ& q, const BusModel& reg, int* c) { return eval(rules, q, reg, send_rule_matches, c); }
Verd can_receive(const std::vector<PRule>& rules, const RecvQ& q, const BusModel& reg, int* c) { return eval(rules, q, reg, recv_rule_matches, c); }

bool can_own(const std::vector<PRule>& rules, const std::string& name) {
  bool allowed = false;
  for (auto& r : rules) {
    if (r.kind != PRule::OWN) continue;
    if (r.own_star) { allowed = r.allow; continue; }
    if (r.own_prefix ? words_prefix(name, r.own) : name == r.own) allowed = r.allow;
  }
  return allowed;
}

}  // namespace vp
