// Helpers shared by the bus-history targets: configuration text, expectation
// matching, full state queries through an observer client.
#pragma once
#include "inproc_bus.h"
#include "busmodel.h"

namespace vp {

struct BusLimits {
  long max_completed = -1, max_per_user = -1, max_incomplete = -1, max_names = -1, max_match_rules = -1, max_replies = -1;
  long max_message_size = -1, reply_timeout = -1, auth_timeout = -1, pending_fd_timeout = -1, max_incoming_unix_fds = -1, max_message_unix_fds = -1;
  long max_incoming_bytes = -1, max_outgoing_bytes = -1, service_start_timeout = -1;
};
// policy_xml: the <policy> elements (or "" for the permissive session-like default).
std::string make_config(const std::string& type, const std::string& policy_xml, const BusLimits& lim, const std::string& extra = "");
extern const char* const PERMISSIVE_POLICY;

// Match observed frames against expectations as multisets.  If reply_last_serial
// != 0, the frame that is the reply (return/error) with that reply serial must be
// the last of the frames this call accounts for.  Returns "" or a description.
std::string match_frames(const std::vector<RecvFrame>& got, const std::vector<Exp>& want, uint32_t reply_last_serial = 0);

std::string show_frames(const std::vector<RecvFrame>& got);
std::string show_exps(const std::vector<Exp>& want);

// Synchronous driver call by client c: sends, pumps, drains; returns the reply
// frame in *reply (valid=false if none) and all other frames in *others.
bool sync_call(Bus& bus, int c, const std::string& member, const std::vector<Value>& args, RecvFrame* reply, std::vector<RecvFrame>* others);

// Compare GetNameOwner / NameHasOwner / ListQueuedOwners for each name and
// ListNames with the model, using client `obs` (which must be registered).  "" if all agree.
std::string check_registry(Bus& bus, int obs, const BusModel& model, const std::vector<std::string>& names);

// Replace every unique connection name (:N.M) by U<k>, k = order of first appearance, so that
// histories hash the same regardless of the bus' (process-global) name counter.
std::string normalize_uniques(const std::string& s);

}  // namespace vp
