// Helpers shared by the bus-history targets: configuration text, expectation
// matching, full state queries through an observer client.
#pragma once
#include "inproc_bus.h"
#include "busmodel.h"
#include <set>

namespace vp {

struct BusLimits {
  long max_completed = -1, max_per_user = -1, max_incomplete = -1, max_names = -1, max_match_rules = -1, max_replies = -1;
  long max_message_size = -1, reply_timeout = -1, auth_timeout = -1, pending_fd_timeout = -1, max_incoming_unix_fds = -1, max_message_unix_fds = -1;
  long max_incoming_bytes = -1, max_outgoing_bytes = -1, service_start_timeout = -1;
};
// policy_xml: the <policy> elements (or "" for the permissive session-like default).
std::string make_config(const std::string& type, const std::string& policy_xml, const BusLimits& lim, const std::string& extra = "");
extern const char* const PERMISSIVE_POLICY;

// Match observed frames against expectations as multisets.  If reply_last_serial
// != 0, the frame that is the reply (return/error) with that reply serial must be
// the last of the frames this call accounts for.  Returns "" or a description.
std::string match_frames(const std::vector<RecvFrame>& got, const std::vector<Exp>& want, uint32_t reply_last_serial = 0);

std::string show_frames(const std::vector<RecvFrame>& got);
std::string show_exps(const std::vector<Exp>& want);

// Synchronous driver call by client c: sends, pumps, drains; returns the reply
// frame in *reply (valid=false if none) and all other frames in *others.
bool sync_call(Bus& bus, int c, const std::string& member, const std::vector<Value>& args, RecvFrame* reply, std::vector<RecvFrame>* others);

// Compare GetNameOwner / NameHasOwner / ListQueuedOwners for each name and
// ListNames with the model, using client `obs` (which must be registered).  "" if all agree.
std::string check_registry(Bus& bus, int obs, const BusModel& model, const std::vector<std::string>& names);

// Replace every unique connection name (:N.M) by U<k>, k = order of first appearance, so that
// histories hash the same regardless of the bus' (process-global) name counter.
std::string normalize_uniques(const std::string& s);

}  // namespace vp

namespace vp {

// Common skeleton of the bus-history targets: a bus, its model, N raw clients that
// are index-aligned with model connections, a log, and comparison helpers that
// raise a violation with the history attached.
class Hist {
 public:
  Bus bus;
  BusModel model;
  std::vector<std::string> log;
  const char* prop;
  explicit Hist(const char* p) : prop(p) {}
  [[noreturn]] void fail(const char* kind, const std::string& what);
  void start(const std::string& config);
  // connect + auth (+ Hello unless no_hello); returns index (same in bus and model)
  int add_client(bool do_hello = true, uid_t uid = (uid_t)-1, bool negotiate_fd = true);
  // Hello for an existing client; checks the reply, NameAcquired, uniqueness; other clients' frames vs model
  void hello(int c);
  std::string uniq(int c) { return bus.client(c).unique; }
  bool open(int c) { return bus.client(c).open(); }
  // drain every open client and compare with `out` (multiset per client; reply-last for `caller` if serial != 0).
  // `ignore`: optional predicate to drop frames before comparison.
  void compare_all(Out& out, int caller = -1, uint32_t serial = 0, const char* what = "");
  void add_rule(int c, const std::string& text);      // AddMatch on bus + model, must succeed
  void own(int c, const std::string& name, uint32_t flags);  // RequestName on bus + model, compared
  std::string key() const;                            // normalised log for distinctness
  std::string sample() const;
  std::pair<long, int> finish();                      // stop bus; (blocks leaked, fds leaked)
  static std::set<std::string> all_uniques;           // every unique name ever handed out in this process
};

}  // namespace vp

namespace vp {
// Ordered comparison: `groups` are the expectations produced by consecutive operations for one client; the observed
// frames must split, in order, into consecutive slices each of which matches its group as a multiset (optional
// expectations may be absent).  Returns "" or a description.
std::string match_groups(const std::vector<RecvFrame>& got, const std::vector<std::vector<Exp>>& groups);
}

#include <functional>
namespace vp {
// One operation of a batch: who performs it (per-client order is preserved by the
// serialisation search), how to write it to the bus, and its effect on a model.
struct BOp {
  int c = -1;                                            // acting client (-1: harness action such as a clock advance; ordered with respect to everything)
  std::function<void(Bus&)> write;
  std::function<void(BusModel&, Out&)> apply;
  std::string desc;
};
// Belief-set tracker: the set of model states (plus frames still owed to late readers) that are consistent with
// everything observed so far.  A step is explained if some state x some admissible serialisation reproduces what
// every reading client received, in order.
class Belief {
 public:
  struct Cand { BusModel m; std::vector<std::vector<std::vector<Exp>>> pending; };
  std::vector<Cand> cands;
  bool overflow = false;
  void init(const BusModel& m, int total) { cands.assign(1, Cand()); cands[0].m = m; cands[0].pending.assign(total, {}); }
  // write ops, pump, drain the non-lazy clients, update.  Returns "" or a description of the first difference.
  std::string step(Hist& h, const std::vector<BOp>& ops, const std::vector<bool>& lazy, int* tried = nullptr);
  // all clients read now; some candidate must explain what had accumulated
  std::string resume_all(Hist& h);
  // registry queries by a fresh observer must agree with some candidate
  std::string check_registry_any(Hist& h, const std::vector<std::string>& names);
};
}
