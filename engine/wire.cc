// See wire.h.  Independent encoder / validator / decoder for the D-Bus wire format.
#include "wire.h"
#include <cstring>
#include <cstdio>
#include <cstdlib>

namespace vp {

// ---------------------------------------------------------------- Value helpers

std::string Value::sig() const {
  switch (t) {
    case 'a': return "a" + s;
    case '(': { std::string r = "("; for (auto& k : kids) r += k.sig(); return r + ")"; }
    case '{': { std::string r = "{"; for (auto& k : kids) r += k.sig(); return r + "}"; }
    default: return std::string(1, t);
  }
}

bool Value::operator==(const Value& o) const {
  if (t != o.t) return false;
  if (is_fixed_type(t)) return u == o.u;
  if (t == 's' || t == 'o' || t == 'g') return s == o.s;
  if (t == 'a' && s != o.s) return false;
  if (t == 'a' && (big || o.big)) return big == o.big && u == o.u;
  if (kids.size() != o.kids.size()) return false;
  for (size_t i = 0; i < kids.size(); i++) if (!(kids[i] == o.kids[i])) return false;
  return true;
}

int Value::depth() const {
  if (kids.empty()) return (t == 'a' || t == '(' || t == '{' || t == 'v') ? 1 : 0;
  int m = 0;
  for (auto& k : kids) { int d = k.depth(); if (d > m) m = d; }
  return 1 + m;
}

static void show_(const Value& v, std::string& o, size_t maxlen) {
  if (o.size() > maxlen) return;
  char buf[64];
  switch (v.t) {
    case 's': case 'o': case 'g': {
      o += v.t; o += '"';
      for (unsigned char c : v.s.substr(0, 48)) { if (c >= 0x20 && c < 0x7f && c != '"') o += (char)c; else { snprintf(buf, sizeof buf, "\\x%02x", c); o += buf; } }
      if (v.s.size() > 48) { snprintf(buf, sizeof buf, "...(%zu)", v.s.size()); o += buf; }
      o += '"'; break; }
    case 'a': o += "a" + v.s + "["; for (size_t i = 0; i < v.kids.size(); i++) { if (i) o += ","; show_(v.kids[i], o, maxlen); if (o.size() > maxlen) break; } o += "]"; break;
    case '(': o += "("; for (size_t i = 0; i < v.kids.size(); i++) { if (i) o += ","; show_(v.kids[i], o, maxlen); } o += ")"; break;
    case '{': o += "{"; for (size_t i = 0; i < v.kids.size(); i++) { if (i) o += ":"; show_(v.kids[i], o, maxlen); } o += "}"; break;
    case 'v': o += "v<"; if (!v.kids.empty()) show_(v.kids[0], o, maxlen); o += ">"; break;
    default: snprintf(buf, sizeof buf, "%c:%llx", v.t ? v.t : '?', (unsigned long long)v.u); o += buf;
  }
}
std::string Value::show(int maxlen) const { std::string o; show_(*this, o, maxlen); if ((int)o.size() > maxlen) { o.resize(maxlen); o += "..."; } return o; }

const Value* Msg::field(uint8_t code) const { for (auto& f : fields) if (f.code == code) return &f.v; return nullptr; }
std::string Msg::fstr(uint8_t code) const { auto* v = field(code); return v ? v->s : std::string(); }
uint32_t Msg::fu32(uint8_t code) const { auto* v = field(code); return v ? (uint32_t)v->u : 0; }
void Msg::set_str(uint8_t code, char t, const std::string& s) {
  for (auto& f : fields) if (f.code == code) { f.v = Value::str(t, s); return; }
  Field f; f.code = code; f.v = Value::str(t, s); fields.push_back(f);
}
void Msg::set_u32(uint8_t code, uint32_t v) {
  for (auto& f : fields) if (f.code == code) { f.v = Value::basic('u', v); return; }
  Field f; f.code = code; f.v = Value::basic('u', v); fields.push_back(f);
}
void Msg::del(uint8_t code) { for (size_t i = 0; i < fields.size();) if (fields[i].code == code) fields.erase(fields.begin() + i); else i++; }
std::string Msg::body_sig() const { std::string r; for (auto& v : body) r += v.sig(); return r; }
void Msg::fix_signature() {
  std::string s = body_sig();
  if (s.empty()) del(F_SIGNATURE); else set_str(F_SIGNATURE, 'g', s);
}
std::string Msg::show() const {
  char buf[96];
  snprintf(buf, sizeof buf, "{%s type=%u flags=%u ver=%u serial=%u fields=[", be ? "BE" : "LE", type, flags, version, serial);
  std::string o = buf;
  for (size_t i = 0; i < fields.size(); i++) { snprintf(buf, sizeof buf, "%s%u=", i ? " " : "", fields[i].code); o += buf; o += fields[i].v.show(80); }
  o += "] body=[";
  for (size_t i = 0; i < body.size(); i++) { if (i) o += ","; o += body[i].show(160); if (o.size() > 900) { o += "..."; break; } }
  return o + "]}";
}

std::string hex(const uint8_t* p, size_t n, size_t max) {
  static const char* d = "0123456789abcdef";
  std::string o; size_t m = n < max ? n : max;
  for (size_t i = 0; i < m; i++) { o += d[p[i] >> 4]; o += d[p[i] & 15]; }
  if (n > max) o += "...";
  return o;
}
std::string hex(const std::string& s, size_t max) { return hex((const uint8_t*)s.data(), s.size(), max); }
uint64_t fnv1a(const void* p, size_t n, uint64_t h) { const uint8_t* b = (const uint8_t*)p; for (size_t i = 0; i < n; i++) { h ^= b[i]; h *= 1099511628211ull; } return h; }

// ---------------------------------------------------------------- encoder

static void pad_(std::string& out, int al, Layout* lay) {
  size_t r = out.size() % al;
  if (r) { size_t n = al - r; if (lay) lay->marks.push_back({MK_PAD, out.size(), n}); out.append(n, '\0'); }
}
static void put_(std::string& out, uint64_t v, int size, bool be) {
  char b[8];
  for (int i = 0; i < size; i++) { int sh = be ? (size - 1 - i) * 8 : i * 8; b[i] = (char)((v >> sh) & 0xff); }
  out.append(b, size);
}
static void patch32_(std::string& out, size_t off, uint32_t v, bool be) {
  for (int i = 0; i < 4; i++) { int sh = be ? (3 - i) * 8 : i * 8; out[off + i] = (char)((v >> sh) & 0xff); }
}

void encode_value(const Value& v, std::string& out, bool be, Layout* lay) {
  switch (v.t) {
    case 'y': case 'n': case 'q': case 'i': case 'u': case 'x': case 't': case 'd': case 'h': case 'b': {
      int sz = fixed_size(v.t);
      pad_(out, sz, lay);
      if (lay) lay->marks.push_back({v.t == 'b' ? MK_BOOL : MK_FIXED, out.size(), (size_t)sz});
      put_(out, v.u, sz, be);
      break; }
    case 's': case 'o': {
      pad_(out, 4, lay);
      if (lay) lay->marks.push_back({MK_LEN32, out.size(), 4});
      put_(out, v.s.size(), 4, be);
      if (lay && !v.s.empty()) lay->marks.push_back({v.t == 'o' ? MK_PATHBYTE : MK_STRBYTE, out.size(), v.s.size()});
      out += v.s;
      if (lay) lay->marks.push_back({MK_STRNUL, out.size(), 1});
      out += '\0';
      break; }
    case 'g': {
      if (lay) lay->marks.push_back({MK_SIGLEN, out.size(), 1});
      out += (char)(unsigned char)v.s.size();
      if (lay && !v.s.empty()) lay->marks.push_back({MK_SIGBYTE, out.size(), v.s.size()});
      out += v.s;
      if (lay) lay->marks.push_back({MK_STRNUL, out.size(), 1});
      out += '\0';
      break; }
    case 'a': {
      pad_(out, 4, lay);
      size_t lenpos = out.size();
      if (lay) lay->marks.push_back({MK_LEN32, lenpos, 4});
      put_(out, 0, 4, be);
      pad_(out, type_alignment(v.s.empty() ? 'y' : v.s[0]), lay);
      size_t start = out.size();
      for (auto& k : v.kids) encode_value(k, out, be, lay);
      patch32_(out, lenpos, (uint32_t)(out.size() - start), be);
      break; }
    case '(': case '{': {
      pad_(out, 8, lay);
      for (auto& k : v.kids) encode_value(k, out, be, lay);
      break; }
    case 'v': {
      std::string s = v.kids.empty() ? std::string() : v.kids[0].sig();
      if (lay) lay->marks.push_back({MK_SIGLEN, out.size(), 1});
      out += (char)(unsigned char)s.size();
      if (lay && !s.empty()) lay->marks.push_back({MK_SIGBYTE, out.size(), s.size()});
      out += s;
      if (lay) lay->marks.push_back({MK_STRNUL, out.size(), 1});
      out += '\0';
      if (!v.kids.empty()) encode_value(v.kids[0], out, be, lay);
      break; }
    default: break;
  }
}

std::string encode_body(const std::vector<Value>& body, bool be, Layout* lay) {
  std::string out;
  for (auto& v : body) encode_value(v, out, be, lay);
  return out;
}

std::string encode_msg(const Msg& m, Layout* lay) {
  std::string out;
  out += m.be ? 'B' : 'l';
  out += (char)m.type; out += (char)m.flags; out += (char)m.version;
  std::string body = encode_body(m.body, m.be, nullptr);
  if (lay) lay->marks.push_back({MK_LEN32, 4, 4});
  put_(out, body.size(), 4, m.be);
  if (lay) lay->marks.push_back({MK_FIXED, 8, 4});
  put_(out, m.serial, 4, m.be);
  size_t lenpos = out.size();
  if (lay) lay->marks.push_back({MK_LEN32, lenpos, 4});
  put_(out, 0, 4, m.be);
  size_t start = out.size();  // 16, already 8-aligned
  for (auto& f : m.fields) {
    pad_(out, 8, lay);
    if (lay) lay->marks.push_back({MK_FIELDCODE, out.size(), 1});
    out += (char)f.code;
    // mark name-ish strings for character-level corruption
    size_t before = lay ? lay->marks.size() : 0;
    encode_value(Value::variant(f.v), out, m.be, lay);
    if (lay && (f.code == F_INTERFACE || f.code == F_MEMBER || f.code == F_ERROR_NAME || f.code == F_DESTINATION || f.code == F_SENDER))
      for (size_t i = before; i < lay->marks.size(); i++) if (lay->marks[i].kind == MK_STRBYTE) lay->marks[i].kind = MK_NAMEBYTE;
  }
  size_t flen = out.size() - start;
  patch32_(out, lenpos, (uint32_t)flen, m.be);
  pad_(out, 8, lay);
  size_t hlen = out.size();
  if (lay) {
    Layout bl; encode_body(m.body, m.be, &bl);
    for (auto& mk : bl.marks) lay->marks.push_back({mk.kind, mk.off + hlen, mk.len});
    lay->header_len = hlen; lay->fields_len = flen; lay->body_len = body.size();
  }
  out += body;
  return out;
}

// ---------------------------------------------------------------- decoder

namespace {
const uint64_t kBigArray = 1u << 18;
struct Rd {
  const uint8_t* p; size_t n; size_t pos; bool be;
  std::string err; int maxdepth = 0;
  size_t errpos = 0;
  bool fail(const char* why) { if (err.empty()) { err = why; errpos = pos; } return false; }
  bool align(int al) {
    while (pos % al) { if (pos >= n) return fail("truncated in alignment padding"); if (p[pos] != 0) return fail("alignment padding not zero"); pos++; }
    return true;
  }
  bool get(int size, uint64_t& v) {
    if (pos + size > n) return fail("truncated fixed value");
    v = 0;
    for (int i = 0; i < size; i++) { int sh = be ? (size - 1 - i) * 8 : i * 8; v |= (uint64_t)p[pos + i] << sh; }
    pos += size; return true;
  }
};

bool dec_(Rd& r, const std::string& sig, size_t& sp, int depth, Value& out);

bool dec_sig_payload_(Rd& r, std::string& s) {
  uint64_t l;
  if (!r.get(1, l)) return false;
  if (r.pos + l + 1 > r.n) return r.fail("truncated signature");
  s.assign((const char*)r.p + r.pos, l);
  r.pos += l;
  if (r.p[r.pos] != 0) return r.fail("signature not NUL terminated");
  r.pos++;
  return true;
}

bool dec_(Rd& r, const std::string& sig, size_t& sp, int depth, Value& out) {
  // depth = number of containers enclosing this value
  if (depth > r.maxdepth) r.maxdepth = depth;
  if (depth > 80) return r.fail("nested too deeply");
  char c = sig[sp];
  out = Value(); out.t = c;
  if (is_fixed_type(c)) {
    int sz = fixed_size(c);
    if (!r.align(sz)) return false;
    if (!r.get(sz, out.u)) return false;
    if (c == 'b' && out.u > 1) return r.fail("boolean not 0 or 1");
    sp++; return true;
  }
  if (c == 's' || c == 'o') {
    uint64_t l;
    if (!r.align(4) || !r.get(4, l)) return false;
    if (l > r.n || r.pos + l + 1 > r.n) return r.fail("truncated string");
    out.s.assign((const char*)r.p + r.pos, l);
    r.pos += l;
    if (r.p[r.pos] != 0) return r.fail("string not NUL terminated");
    r.pos++;
    if (c == 's' && !is_utf8(out.s)) return r.fail("string not valid UTF-8 / contains NUL");
    if (c == 'o' && !is_object_path(out.s)) return r.fail("invalid object path");
    sp++; return true;
  }
  if (c == 'g') {
    if (!dec_sig_payload_(r, out.s)) return false;
    if (!is_signature(out.s)) { if (sig_array_depth_ambiguous(out.s)) return r.fail("UNSPEC:array-depth"); return r.fail("invalid signature value"); }
    sp++; return true;
  }
  if (c == 'v') {
    std::string vs;
    if (!dec_sig_payload_(r, vs)) return false;
    if (!is_single_signature(vs)) { if (sig_array_depth_ambiguous(vs)) return r.fail("UNSPEC:array-depth"); return r.fail("variant signature is not a single complete type"); }
    Value k; size_t vsp = 0;
    if (!dec_(r, vs, vsp, depth + 1, k)) return false;
    out.kids.push_back(std::move(k));
    sp++; return true;
  }
  if (c == 'a') {
    size_t el = sct_len(sig, sp + 1);
    if (!el) return r.fail("bad array signature");
    out.s = sig.substr(sp + 1, el);
    uint64_t l;
    if (!r.align(4) || !r.get(4, l)) return false;
    if (l > (1u << 26)) return r.fail("array longer than 2^26");
    if (!r.align(type_alignment(out.s[0]))) return false;
    if (l > r.n || r.pos + l > r.n) return r.fail("array length exceeds data");
    size_t end = r.pos + l;
    if (l > kBigArray && is_fixed_type(out.s[0])) {
      // big array of fixed-size elements: validate, but keep only (count, hash of element values) instead of one Value per element
      int sz = fixed_size(out.s[0]);
      if (l % sz) return r.fail("array length incorrect (not a multiple of the element size)");
      uint64_t h = 1469598103934665603ull, cnt = 0;
      Rd sub = r; sub.n = end;
      while (sub.pos < end) { uint64_t x; if (!sub.get(sz, x)) return r.fail("array length incorrect"); if (out.s[0] == 'b' && x > 1) return r.fail("boolean not 0 or 1"); h = (h ^ x) * 1099511628211ull; cnt++; }
      if (depth + 1 > r.maxdepth) r.maxdepth = depth + 1;
      out.u = h; out.big = cnt;
      r.pos = end; sp += 1 + el; return true;
    }
    // elements must exactly fill [pos,end)
    Rd sub = r; sub.n = end;
    while (sub.pos < end) {
      Value k; size_t esp = 0;
      if (!dec_(sub, out.s, esp, depth + 1, k)) { r.err = sub.err.empty() ? "bad array element" : sub.err; r.errpos = sub.errpos; if (r.err.rfind("truncated", 0) == 0) r.err = "array length incorrect (" + r.err + ")"; r.maxdepth = sub.maxdepth; return false; }
      out.kids.push_back(std::move(k));
    }
    r.maxdepth = sub.maxdepth;
    r.pos = end;
    sp += 1 + el; return true;
  }
  if (c == '(' || c == '{') {
    char close = c == '(' ? ')' : '}';
    if (!r.align(8)) return false;
    size_t i = sp + 1;
    while (i < sig.size() && sig[i] != close) {
      Value k;
      if (!dec_(r, sig, i, depth + 1, k)) return false;
      out.kids.push_back(std::move(k));
    }
    if (i >= sig.size()) return r.fail("bad struct signature");
    sp = i + 1; return true;
  }
  return r.fail("unknown type code");
}

Verdict finish_(Rd& r, std::string* reason) {
  if (r.maxdepth >= 66) { if (reason) *reason = "value nesting deeper than 64"; return Verdict::Invalid; }
  if (r.maxdepth == 65) { if (reason) *reason = "UNSPEC:depth65"; return Verdict::Unspec; }
  return Verdict::Valid;
}
Verdict failv_(Rd& r, std::string* reason) {
  if (reason) *reason = r.err;
  if (getenv("VP_ERRPOS") && reason) *reason += " @" + std::to_string(r.errpos);
  if (r.err.rfind("UNSPEC:", 0) == 0) return Verdict::Unspec;
  return Verdict::Invalid;
}
}  // namespace

Verdict decode_body(const std::string& sig, const uint8_t* p, size_t n, bool be, std::vector<Value>* out, std::string* reason) {
  if (!is_signature(sig)) {
    if (sig_array_depth_ambiguous(sig)) { if (reason) *reason = "UNSPEC:array-depth"; return Verdict::Unspec; }
    if (reason) *reason = "invalid body signature"; return Verdict::Invalid;
  }
  Rd r{p, n, 0, be};
  size_t sp = 0;
  std::vector<Value> vals;
  while (sp < sig.size()) {
    Value v;
    if (!dec_(r, sig, sp, 0, v)) {
      // deeper-than-limit values may surface as other errors further in; depth decides first
      if (r.maxdepth >= 66) { if (reason) *reason = "value nesting deeper than 64"; return Verdict::Invalid; }
      return failv_(r, reason);
    }
    vals.push_back(std::move(v));
  }
  if (r.pos != n) { if (reason) *reason = "bytes left over after body"; Verdict dv = finish_(r, nullptr); (void)dv; return Verdict::Invalid; }
  if (out) *out = std::move(vals);
  return finish_(r, reason);
}

static uint32_t rd32_(const uint8_t* p, bool be) {
  return be ? ((uint32_t)p[0] << 24 | (uint32_t)p[1] << 16 | (uint32_t)p[2] << 8 | p[3])
            : ((uint32_t)p[3] << 24 | (uint32_t)p[2] << 16 | (uint32_t)p[1] << 8 | p[0]);
}

size_t declared_length(const uint8_t* p, size_t n, bool* bad, uint32_t max_message) {
  if (bad) *bad = false;
  if (n < 16) return 0;
  if (p[0] != 'l' && p[0] != 'B') { if (bad) *bad = true; return 0; }
  bool be = p[0] == 'B';
  uint64_t body = rd32_(p + 4, be), fl = rd32_(p + 12, be);
  if (fl > max_message || body > max_message) { if (bad) *bad = true; return 0; }
  uint64_t hl = (16 + fl + 7) & ~7ull;
  if (hl + body > max_message) { if (bad) *bad = true; return 0; }
  return (size_t)(hl + body);
}

static bool field_type_ok_(uint8_t code, const Value& v) {
  switch (code) {
    case F_PATH: case F_CONTAINER_INSTANCE: return v.t == 'o';
    case F_INTERFACE: case F_MEMBER: case F_ERROR_NAME: case F_DESTINATION: case F_SENDER: return v.t == 's';
    case F_REPLY_SERIAL: case F_UNIX_FDS: return v.t == 'u';
    case F_SIGNATURE: return v.t == 'g';
    default: return true;
  }
}

Verdict decode_frame(const uint8_t* p, size_t n, int nfds, Msg* out, std::string* reason, uint32_t max_message, unsigned relax) {
  std::string dummy; if (!reason) reason = &dummy;
  auto inv = [&](const char* why) { *reason = why; return Verdict::Invalid; };
  if (n < 16) return inv("shorter than fixed header");
  bool bad;
  size_t total = declared_length(p, n, &bad, max_message);
  if (bad) return inv("fixed header: bad byte order mark or insane lengths");
  if (total != n) return inv("frame length mismatch");
  Msg m;
  m.be = p[0] == 'B';
  m.type = p[1]; m.flags = p[2]; m.version = p[3];
  uint32_t body_len = rd32_(p + 4, m.be);
  m.serial = rd32_(p + 8, m.be);
  uint32_t fl = rd32_(p + 12, m.be);
  size_t hl = (16 + (size_t)fl + 7) & ~(size_t)7;
  bool unspec = false; std::string unspec_why;
  // header fields: generic a(yv) rules first (SPEC: the header is a value of type yyyyuua(yv))
  {
    Rd r{p, hl, 12, m.be};
    Value arr; size_t sp = 0;
    std::string hs = "a(yv)";
    if (!dec_(r, hs, sp, 0, arr)) {
      if (r.maxdepth >= 66) return inv("header value nesting deeper than 64");
      Verdict v = failv_(r, reason);
      if (v == Verdict::Unspec) { unspec = true; unspec_why = *reason; }
      else { *reason = "header fields: " + *reason; return v; }
    }
    if (!unspec) {
      if (r.maxdepth >= 66) return inv("header value nesting deeper than 64");
      if (r.maxdepth == 65) { unspec = true; unspec_why = "UNSPEC:depth65"; }
      if (r.pos != 16 + (size_t)fl) return inv("header fields: array length mismatch");
      if (!r.align(8)) return inv("header padding not zero");
      for (auto& st : arr.kids) { Field f; f.code = (uint8_t)st.kids[0].u; f.v = st.kids[1].kids[0]; m.fields.push_back(std::move(f)); }
    }
  }
  if (m.type == 0) return inv("message type 0");
  if (m.version != 1) return inv("protocol version not 1");
  if (m.serial == 0) return inv("serial 0");
  if (unspec) { *reason = unspec_why; return Verdict::Unspec; }
  bool seen[11] = {false};
  bool kf_short = false;
  for (auto& f : m.fields) {
    if (f.code == 0) return inv("header field code 0");
    if (f.code > 10) continue;
    if (!field_type_ok_(f.code, f.v)) return inv("header field has wrong type");
    if (seen[f.code]) return inv("header field appears twice");
    seen[f.code] = true;
    switch (f.code) {
      case F_PATH: if (f.v.s == "/org/freedesktop/DBus/Local") return inv("path is the reserved local path"); break;
      case F_INTERFACE: if (!is_interface(f.v.s)) return inv("bad interface"); if (f.v.s == "org.freedesktop.DBus.Local") return inv("interface is the reserved local interface"); break;
      case F_MEMBER: if (!is_member(f.v.s)) return inv("bad member"); break;
      case F_ERROR_NAME: if (!is_error_name(f.v.s)) return inv("bad error name"); break;
      case F_DESTINATION: case F_SENDER:
        if (!is_bus_name(f.v.s)) { if (unique_name_short_form(f.v.s)) kf_short = true; else return inv(f.code == F_SENDER ? "bad sender" : "bad destination"); }
        break;
      case F_REPLY_SERIAL: if (f.v.u == 0) return inv("reply serial 0"); break;
      default: break;
    }
  }
  if (!(relax & RELAX_MANDATORY)) switch (m.type) {
    case T_CALL: if (!seen[F_PATH] || !seen[F_MEMBER]) return inv("method call lacks path/member"); break;
    case T_SIGNAL: if (!seen[F_PATH] || !seen[F_INTERFACE] || !seen[F_MEMBER]) return inv("signal lacks path/interface/member"); break;
    case T_ERROR: if (!seen[F_ERROR_NAME] || !seen[F_REPLY_SERIAL]) return inv("error lacks name/reply serial"); break;
    case T_RETURN: if (!seen[F_REPLY_SERIAL]) return inv("method return lacks reply serial"); break;
    default: break;
  }
  std::string bsig = m.fstr(F_SIGNATURE);
  std::string br;
  Verdict bv = decode_body(bsig, p + hl, body_len, m.be, &m.body, &br);
  if (bv == Verdict::Invalid) { *reason = "body: " + br; return bv; }
  if (bv == Verdict::Unspec) { *reason = br; return bv; }
  if (nfds >= 0 && seen[F_UNIX_FDS] && m.fu32(F_UNIX_FDS) > (uint32_t)nfds) return inv("UNIX_FDS announces more descriptors than received");
  if (kf_short) { *reason = "KF:unique-name-short"; return Verdict::Unspec; }
  if (out) *out = std::move(m);
  return Verdict::Valid;
}

StreamResult decode_stream(const uint8_t* p, size_t n, int nfds, uint32_t max_message) {
  StreamResult R;
  size_t pos = 0;
  int fds_left = nfds;
  while (true) {
    size_t avail = n - pos;
    if (avail == 0) { R.final = St::End; break; }
    if (avail < 16) {
      R.final = St::NeedMore;
      // definite invalidity visible in the prefix?
      if (p[pos] != 'l' && p[pos] != 'B') R.may_corrupt = true;
      if (avail >= 2 && p[pos + 1] == 0) R.may_corrupt = true;
      if (avail >= 4 && p[pos + 3] != 1) R.may_corrupt = true;
      break;
    }
    bool bad;
    size_t total = declared_length(p + pos, avail, &bad, max_message);
    if (bad) { R.final = St::Corrupt; R.reason = "fixed header: bad byte order mark or insane lengths"; break; }
    if (total > avail) {
      R.final = St::NeedMore; R.need = total;
      bool be = p[pos] == 'B';
      if (p[pos + 1] == 0 || p[pos + 3] != 1 || rd32_(p + pos + 8, be) == 0 || rd32_(p + pos + 12, be) > (1u << 26)) R.may_corrupt = true;
      // anything else in the partial prefix might already be invalid: we only promise may_corrupt for the fixed header
      break;
    }
    Frame f; std::string why;
    Verdict v = decode_frame(p + pos, total, fds_left, &f.msg, &why, max_message);
    if (v == Verdict::Invalid) { R.final = St::Corrupt; R.reason = why; break; }
    if (v == Verdict::Unspec) { R.tail_unspec = true; R.reason = why; R.final = St::Corrupt; break; }
    f.off = pos; f.len = total;
    if (fds_left >= 0) fds_left -= (int)f.msg.fu32(F_UNIX_FDS);
    R.frames.push_back(std::move(f));
    pos += total;
    R.consumed = pos;
  }
  return R;
}

}  // namespace vp
