#include "busmodel.h"
#include "grammar.h"
#include <algorithm>

namespace vp {

const char* const BUS_NAME = "org.freedesktop.DBus";
const char* const BUS_PATH = "/org/freedesktop/DBus";
const char* const BUS_IFACE = "org.freedesktop.DBus";

std::string Exp::show() const {
  static const char* tn[] = {"?", "call", "return", "error", "signal"};
  std::string s = type <= 4 ? tn[type] : "?";
  if (full) s += " (forwarded, serial=" + std::to_string(whole.serial) + ")";
  s += " from=" + sender + " to=" + (check_dest ? dest : "*");
  if (!member.empty()) s += " " + iface + "." + member;
  if (!errname.empty()) s += " err=" + errname;
  if (reply_serial) s += " rs=" + std::to_string(reply_serial);
  s += " [";
  if (any_body) s += "*"; else for (size_t i = 0; i < body.size(); i++) { if (i) s += ","; s += body[i].show(60); }
  return s + "]";
}

std::string frame_vs_exp(const Msg& g, const Exp& e) {
  if (e.full) {
    const Msg& w = e.whole;
    if (g.type != w.type) return "type";
    if (g.flags != w.flags) return "flags";
    if (g.serial != w.serial) return "serial " + std::to_string(g.serial) + " expected " + std::to_string(w.serial);
    if (g.fields.size() != w.fields.size()) return "number of header fields " + std::to_string(g.fields.size()) + " expected " + std::to_string(w.fields.size());
    for (auto& f : w.fields) { const Value* v = g.field(f.code); if (!v) return "header field " + std::to_string(f.code) + " missing"; if (!(*v == f.v)) return "header field " + std::to_string(f.code) + " = " + v->show(80) + " expected " + f.v.show(80); }
    if (g.body.size() != w.body.size()) return "body arity";
    for (size_t i = 0; i < w.body.size(); i++) if (!(g.body[i] == w.body[i])) return "body value " + std::to_string(i);
    return "";
  }
  if (g.type != e.type) return "type";
  if (g.fstr(F_SENDER) != e.sender) return "sender '" + g.fstr(F_SENDER) + "' expected '" + e.sender + "'";
  if (e.check_dest && g.fstr(F_DESTINATION) != e.dest) return "destination '" + g.fstr(F_DESTINATION) + "' expected '" + e.dest + "'";
  if (e.type == T_SIGNAL || e.type == T_CALL) {
    if (g.fstr(F_PATH) != e.path) return "path";
    if (g.fstr(F_INTERFACE) != e.iface) return "interface";
    if (g.fstr(F_MEMBER) != e.member) return "member";
  }
  if (e.type == T_ERROR && !e.any_errname && g.fstr(F_ERROR_NAME) != e.errname) return "error name '" + g.fstr(F_ERROR_NAME) + "' expected '" + e.errname + "'";
  if ((e.type == T_ERROR || e.type == T_RETURN) && g.fu32(F_REPLY_SERIAL) != e.reply_serial) return "reply serial";
  if (!e.any_body) {
    if (g.body.size() != e.body.size()) return "body arity";
    for (size_t i = 0; i < e.body.size(); i++) if (!(g.body[i] == e.body[i])) return "body value " + std::to_string(i) + ": " + g.body[i].show(80) + " expected " + e.body[i].show(80);
  }
  return "";
}

Exp exp_forward(const Msg& stamped) { Exp e; e.full = true; e.whole = stamped; e.type = stamped.type; e.sender = stamped.fstr(F_SENDER); e.dest = stamped.fstr(F_DESTINATION); e.iface = stamped.fstr(F_INTERFACE); e.member = stamped.fstr(F_MEMBER); e.body = stamped.body; return e; }
Exp exp_reply(const std::string& dest, uint32_t rs, const std::vector<Value>& body) { Exp e; e.type = T_RETURN; e.sender = BUS_NAME; e.dest = dest; e.reply_serial = rs; e.body = body; return e; }
Exp exp_error(const std::string& dest, uint32_t rs, const std::string& name) { Exp e; e.type = T_ERROR; e.sender = BUS_NAME; e.dest = dest; e.reply_serial = rs; e.errname = name; e.any_body = true; return e; }
Exp exp_bus_signal(const std::string& member, const std::string& dest, const std::vector<Value>& body) { Exp e; e.type = T_SIGNAL; e.sender = BUS_NAME; e.dest = dest; e.path = BUS_PATH; e.iface = BUS_IFACE; e.member = member; e.body = body; return e; }

static Value S(const std::string& s) { return Value::str('s', s); }

MatchCtx BusModel::ctx_for(int sender_conn, int addressed) const {
  MatchCtx cx;
  cx.sender_unique = sender_conn < 0 ? std::string(BUS_NAME) : conns[sender_conn].unique;
  cx.addressed_unique = addressed < 0 ? std::string() : conns[addressed].unique;
  const BusModel* self = this;
  cx.owner_of = [self](const std::string& n) { return n == BUS_NAME ? std::string(BUS_NAME) : self->owner_unique(n); };
  return cx;
}

std::vector<int> BusModel::rule_recipients(const Msg& m, int sender_conn, int addressed) const {
  std::vector<int> r;
  MatchCtx cx = ctx_for(sender_conn, addressed);
  for (size_t i = 0; i < conns.size(); i++) {
    const MConn& c = conns[i];
    if ((int)i == addressed || !c.alive || !c.registered || c.monitor) continue;
    for (auto& rule : c.rules) if (rule_matches(rule, m, cx)) { r.push_back((int)i); break; }
  }
  return r;
}

Msg BusModel::stamp(const Msg& m, int sender_conn) const {
  Msg s = m;
  for (size_t i = 0; i < s.fields.size();) if (s.fields[i].code > 10 || s.fields[i].code == F_CONTAINER_INSTANCE || s.fields[i].code == F_SENDER) s.fields.erase(s.fields.begin() + i); else i++;
  s.set_str(F_SENDER, 's', sender_conn < 0 ? std::string(BUS_NAME) : conns[sender_conn].unique);
  return s;
}

std::string BusModel::fingerprint() const {
  std::string s;
  for (auto& c : conns) { s += c.alive ? 'A' : 'd'; s += c.registered ? 'R' : 'u'; s += c.monitor ? 'M' : '-'; s += c.unique + "{"; for (auto& r : c.rules) s += r.show() + ";"; s += "}"; }
  for (auto& kv : q) { s += kv.first + "["; for (auto& o : kv.second) s += std::to_string(o.conn) + (o.allow_repl ? "a" : "") + (o.dnq ? "d" : "") + ","; s += "]"; }
  for (auto& p : pending) s += "P" + std::to_string(p.caller) + ">" + std::to_string(p.callee) + "#" + std::to_string(p.serial) + "@" + std::to_string(p.t_added_ms);
  return s;
}

int BusModel::pending_of(int caller) const { int n = 0; for (auto& p : pending) if (p.caller == caller) n++; return n; }

void BusModel::advance(long ms, Out& out) {
  now_ms += ms;
  if (reply_timeout_ms < 0) return;
  for (size_t i = 0; i < pending.size();) {
    if (now_ms - pending[i].t_added_ms >= reply_timeout_ms) {
      const PendingReply p = pending[i];
      pending.erase(pending.begin() + i);
      if (conns[p.caller].alive) { Exp e = exp_error(conns[p.caller].unique, p.serial, "org.freedesktop.DBus.Error.NoReply"); emit_to(p.caller, e, out); }
    } else i++;
  }
}

void BusModel::route(int c, const Msg& m, Out& out) {
  Msg st = stamp(m, c);
  if (!m.has(F_DESTINATION)) {
    if (m.type == T_SIGNAL) for (int r : rule_recipients(st, c, -1)) out[r].push_back(exp_forward(st));   // broadcast
    // [U] other types without destination are interpreted by the bus itself; nobody else sees them
    return;
  }
  std::string dest = m.fstr(F_DESTINATION);
  int addressed = primary(dest);
  if (addressed < 0) {
    // undeliverable.  [property C05] a method call earns exactly one error carrying its serial; [U] for other message types
    Exp e = exp_error(conns[c].unique, m.serial, ""); e.any_errname = true;
    if (m.type != T_CALL) e.optional = true;   // (the property makes no exception for calls flagged NO_REPLY_EXPECTED, and the bus answers them too)
    emit_to(c, e, out);
    // [U] whether eavesdroppers see an undeliverable message
    for (int r : rule_recipients(st, c, -1)) { Exp x = exp_forward(st); x.optional = true; out[r].push_back(x); }
    return;
  }
  bool is_reply = m.type == T_RETURN || m.type == T_ERROR;
  if (is_reply) {
    // [M] requested reply: the addressee has an open slot for (addressee -> c, reply serial)
    uint32_t rs = m.fu32(F_REPLY_SERIAL);
    size_t slot = pending.size();
    for (size_t i = 0; i < pending.size(); i++) if (pending[i].caller == addressed && pending[i].callee == c && pending[i].serial == rs) { slot = i; break; }
    if (slot < pending.size()) pending.erase(pending.begin() + slot);
    else if (replies_must_be_requested) {
      // [property C09] refused as access denied, delivered to nobody
      Exp e = exp_error(conns[c].unique, m.serial, "org.freedesktop.DBus.Error.AccessDenied"); e.optional = (m.flags & 1) != 0;
      emit_to(c, e, out);
      return;
    }
  }
  if (m.type == T_CALL && !(m.flags & 1)) {
    // [M] a call that expects a reply opens a slot at its addressed recipient
    for (auto& p : pending) if (p.caller == c && p.callee == addressed && p.serial == m.serial) {
      // [D bus_connections_expect_reply] a second call with an outstanding (caller, callee, serial) is refused
      Exp e = exp_error(conns[c].unique, m.serial, ""); e.any_errname = true; emit_to(c, e, out); return;
    }
    if (pending_of(c) >= max_replies) { emit_to(c, exp_error(conns[c].unique, m.serial, "org.freedesktop.DBus.Error.LimitsExceeded"), out); return; }
    pending.push_back({c, addressed, m.serial, now_ms});
  }
  out[addressed].push_back(exp_forward(st));
  for (int r : rule_recipients(st, c, addressed)) out[r].push_back(exp_forward(st));
}

void BusModel::add_optional_eavesdrop(Out& out, int caller, const Msg* driver_call) const {
  std::vector<int> eaves;
  for (size_t i = 0; i < conns.size(); i++) { if (!conns[i].alive || !conns[i].registered || conns[i].monitor) continue; for (auto& r : conns[i].rules) if (r.eavesdrop) { eaves.push_back((int)i); break; } }
  if (eaves.empty()) return;
  std::vector<std::pair<int, Exp>> add;
  for (auto& kv : out) for (auto& e : kv.second) {
    if (e.optional) continue;
    bool unicast = e.full ? e.whole.has(F_DESTINATION) : !e.dest.empty();
    bool from_bus = e.full ? false : e.sender == BUS_NAME;
    if (!unicast || !from_bus || (e.type != T_RETURN && e.type != T_ERROR)) continue;
    for (int y : eaves) if (y != kv.first) { Exp x = e; x.optional = true; add.push_back({y, x}); }
  }
  for (auto& a : add) out[a.first].push_back(a.second);
  if (driver_call && caller >= 0) { Msg st = stamp(*driver_call, caller); for (int y : eaves) { Exp x = exp_forward(st); x.optional = true; out[y].push_back(x); } }
}

bool BusModel::remove_match(int c, const MatchRule& r) {
  auto& v = conns[c].rules;
  for (size_t i = v.size(); i > 0; i--) if (v[i - 1] == r) { v.erase(v.begin() + (i - 1)); return true; }
  return false;
}

void BusModel::bus_signal(const std::string& member, const std::string& dest, const std::vector<Value>& body, Out& out) {
  Msg m; m.type = T_SIGNAL;
  m.set_str(F_PATH, 'o', BUS_PATH); m.set_str(F_INTERFACE, 's', BUS_IFACE); m.set_str(F_MEMBER, 's', member);
  m.set_str(F_SENDER, 's', BUS_NAME);
  if (!dest.empty()) m.set_str(F_DESTINATION, 's', dest);
  m.body = body;
  int addressed = dest.empty() ? -1 : conn_by_unique(dest);
  emitted.push_back(exp_bus_signal(member, dest, body));
  if (addressed >= 0) out[addressed].push_back(exp_bus_signal(member, dest, body));
  // broadcast: required.  Unicast signal from the bus (NameAcquired/NameLost): eavesdroppers' copies are optional [U]
  for (int r : rule_recipients(m, -1, addressed)) { Exp x = exp_bus_signal(member, dest, body); x.optional = !dest.empty(); out[r].push_back(x); }
}

void BusModel::noc(const std::string& name, const std::string& oldo, const std::string& newo, Out& out) {
  // [S] NameOwnerChanged is a broadcast from the bus; it reaches connections with a matching rule
  bus_signal("NameOwnerChanged", "", {S(name), S(oldo), S(newo)}, out);
}

void BusModel::hello(int c, const std::string& unique, uint32_t serial, Out& out) {
  conns[c].registered = true;
  conns[c].unique = unique;
  noc(unique, "", unique, out);
  emit_to(c, exp_reply(unique, serial, {S(unique)}), out);
  bus_signal("NameAcquired", unique, {S(unique)}, out);
}

int BusModel::names_held(int c) const {
  int n = conns[c].registered ? 1 : 0;   // [D test/dbus-daemon.c] "the unique name is a name too"
  for (auto& kv : q) for (auto& o : kv.second) if (o.conn == c) n++;
  return n;
}

uint32_t BusModel::request_name(int c, const std::string& name, uint32_t flags, uint32_t serial, Out& out, std::string* err) {
  const std::string& me = conns[c].unique;
  auto fail = [&](const char* e) { *err = e; emit_to(c, exp_error(me, serial, e), out); return 0u; };
  if (!is_bus_name(name)) return fail("org.freedesktop.DBus.Error.InvalidArgs");                       // [S]
  if (name[0] == ':' || name == BUS_NAME) return fail("org.freedesktop.DBus.Error.InvalidArgs");       // [S] cannot be requested
  if (names_held(c) >= max_names) return fail("org.freedesktop.DBus.Error.LimitsExceeded");            // [M]
  bool A = flags & 1, R = flags & 2, D = flags & 4;
  std::vector<NameOwner>& Q = q[name];
  uint32_t code;
  if (Q.empty()) {
    Q.push_back({c, A, D});
    noc(name, "", me, out);
    bus_signal("NameAcquired", me, {S(name)}, out);
    code = RN_PRIMARY;
  } else if (Q[0].conn == c) {
    Q[0].allow_repl = A; Q[0].dnq = D;                                                                   // [S bullet 1]
    code = RN_ALREADY;
  } else if (R && Q[0].allow_repl) {                                                                     // [S bullet 2]
    NameOwner old = Q[0];
    for (size_t i = 1; i < Q.size(); i++) if (Q[i].conn == c) { Q.erase(Q.begin() + i); break; }
    Q[0] = {c, A, D};
    if (!old.dnq) Q.insert(Q.begin() + 1, old);                                                          // [S bullet 5]
    bus_signal("NameLost", conns[old.conn].unique, {S(name)}, out);
    noc(name, conns[old.conn].unique, me, out);
    bus_signal("NameAcquired", me, {S(name)}, out);
    code = RN_PRIMARY;
  } else {
    size_t idx = Q.size();
    for (size_t i = 1; i < Q.size(); i++) if (Q[i].conn == c) idx = i;
    if (D) { if (idx < Q.size()) Q.erase(Q.begin() + idx); code = RN_EXISTS; }                          // [S bullets 3+5 / 4+5]
    else if (idx < Q.size()) { Q[idx].allow_repl = A; Q[idx].dnq = D; code = RN_IN_QUEUE; }               // [S bullet 3] position unchanged
    else { Q.push_back({c, A, D}); code = RN_IN_QUEUE; }                                                  // [S bullet 4] appended
  }
  if (Q.empty()) q.erase(name);
  emit_to(c, exp_reply(me, serial, {Value::basic('u', code)}), out);
  return code;
}

uint32_t BusModel::release_name(int c, const std::string& name, uint32_t serial, Out& out, std::string* err) {
  const std::string& me = conns[c].unique;
  auto fail = [&](const char* e) { *err = e; emit_to(c, exp_error(me, serial, e), out); return 0u; };
  if (!is_bus_name(name)) return fail("org.freedesktop.DBus.Error.InvalidArgs");
  if (name[0] == ':' || name == BUS_NAME) return fail("org.freedesktop.DBus.Error.InvalidArgs");        // [S] cannot be released
  uint32_t code;
  auto it = q.find(name);
  if (it == q.end() || it->second.empty()) code = RL_NON_EXISTENT;
  else {
    std::vector<NameOwner>& Q = it->second;
    size_t idx = Q.size();
    for (size_t i = 0; i < Q.size(); i++) if (Q[i].conn == c) idx = i;
    if (idx == Q.size()) code = RL_NOT_OWNER;
    else { remove_owner_entry(name, c, out, true); code = RL_RELEASED; }
  }
  emit_to(c, exp_reply(me, serial, {Value::basic('u', code)}), out);
  return code;
}

void BusModel::remove_owner_entry(const std::string& name, int c, Out& out, bool send_lost_to_c) {
  std::vector<NameOwner>& Q = q[name];
  size_t idx = Q.size();
  for (size_t i = 0; i < Q.size(); i++) if (Q[i].conn == c) idx = i;
  if (idx == Q.size()) return;
  if (idx > 0) { Q.erase(Q.begin() + idx); return; }   // queued, not primary: silent
  Q.erase(Q.begin());
  if (send_lost_to_c) bus_signal("NameLost", conns[c].unique, {S(name)}, out);
  std::string next = Q.empty() ? "" : conns[Q[0].conn].unique;
  noc(name, conns[c].unique, next, out);
  if (!Q.empty()) bus_signal("NameAcquired", next, {S(name)}, out);
  if (Q.empty()) q.erase(name);
}

void BusModel::disconnect(int c, Out& out) {
  if (!conns[c].alive) return;
  conns[c].alive = false;   // it receives nothing any more
  // [property C09] callee gone: exactly one NoReply per open slot to the caller; caller gone: slots dropped silently
  for (size_t i = 0; i < pending.size();) {
    if (pending[i].callee == c || pending[i].caller == c) {
      const PendingReply p = pending[i];
      pending.erase(pending.begin() + i);
      if (p.callee == c && p.caller != c && conns[p.caller].alive) emit_to(p.caller, exp_error(conns[p.caller].unique, p.serial, "org.freedesktop.DBus.Error.NoReply"), out);
    } else i++;
  }
  if (conns[c].registered) {
    std::vector<std::string> names;
    for (auto& kv : q) for (auto& o : kv.second) if (o.conn == c) names.push_back(kv.first);
    for (auto& n : names) { bool prim = !q[n].empty() && q[n][0].conn == c; if (prim) emitted.push_back(exp_bus_signal("NameLost", conns[c].unique, {S(n)})); remove_owner_entry(n, c, out, false); }   // NameLost is still produced (monitors see it) though the addressee is gone
    emitted.push_back(exp_bus_signal("NameLost", conns[c].unique, {S(conns[c].unique)}));
    noc(conns[c].unique, conns[c].unique, "", out);   // [D] unique name released last
    // [D bus_matchmaker_disconnected] rules of other connections that name the departed unique name as sender or
    // destination can never match again (unique names are not reused); the bus drops them.
    for (auto& o : conns) for (size_t k = 0; k < o.rules.size();) { const MatchRule& r = o.rules[k]; if ((r.has_sender && r.sender == conns[c].unique) || (r.has_dest && r.dest == conns[c].unique)) o.rules.erase(o.rules.begin() + k); else k++; }
  }
  conns[c].rules.clear();
  conns[c].registered = false;
  out.erase(c);
}

void BusModel::become_monitor(int c, Out& out) {
  std::vector<std::string> lost;
  for (auto& kv : q) if (!kv.second.empty() && kv.second[0].conn == c) lost.push_back(kv.first);
  std::string me = conns[c].unique;
  bool was_reg = conns[c].registered;
  disconnect(c, out);
  (void)lost; (void)was_reg;
  conns[c].alive = true; conns[c].monitor = true; conns[c].unique = me;
}

int BusModel::conn_by_unique(const std::string& u) const {
  for (size_t i = 0; i < conns.size(); i++) if (conns[i].alive && conns[i].registered && !conns[i].monitor && conns[i].unique == u) return (int)i;
  return -1;
}
int BusModel::primary(const std::string& name) const {
  if (!name.empty() && name[0] == ':') return conn_by_unique(name);
  auto it = q.find(name);
  if (it == q.end() || it->second.empty()) return -1;
  return it->second[0].conn;
}
std::string BusModel::owner_unique(const std::string& name) const { int p = primary(name); return p < 0 ? "" : conns[p].unique; }
std::vector<std::string> BusModel::queued_owners(const std::string& name) const {
  std::vector<std::string> r;
  if (!name.empty() && name[0] == ':') { int c = conn_by_unique(name); if (c >= 0) r.push_back(name); return r; }
  auto it = q.find(name);
  if (it != q.end()) for (auto& o : it->second) r.push_back(conns[o.conn].unique);
  return r;
}
std::vector<std::string> BusModel::list_names() const {
  std::vector<std::string> r;
  r.push_back(BUS_NAME);
  for (auto& kv : q) if (!kv.second.empty()) r.push_back(kv.first);
  for (auto& c : conns) if (c.alive && c.registered && !c.monitor) r.push_back(c.unique);
  std::sort(r.begin(), r.end());
  return r;
}

}  // namespace vp
