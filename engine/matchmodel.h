// Match rules: parser and matcher written from the specification's "Match Rules"
// section (quoting paragraph + key table).  [S] spec, [D] documented in code, [U] unspecified.
#pragma once
#include <functional>
#include <map>
#include <string>
#include "wire.h"

namespace vp {

struct MatchRule {
  int type = 0;                         // 0 = any
  bool has_sender = false, has_iface = false, has_member = false, has_path = false, has_path_ns = false, has_dest = false, has_arg0ns = false;
  std::string sender, iface, member, path, path_ns, dest, arg0ns;
  std::map<int, std::string> args;      // argN
  std::map<int, std::string> argpaths;  // argNpath
  bool eavesdrop = false;
  bool operator==(const MatchRule& o) const;
  std::string show() const;
};

enum class RuleParse { Ok, Invalid, TooLong, Unspec };

// why: reason for Invalid / Unspec
RuleParse parse_match_rule(const std::string& text, MatchRule* out, std::string* why);

struct MatchCtx {
  std::string sender_unique;                                      // unique name of the sending connection, or the bus name
  std::function<std::string(const std::string&)> owner_of;        // well-known or unique name -> unique name of primary owner ("" if none)
  std::string addressed_unique;                                   // unique name of the addressed recipient ("" if none / unknown)
};

// Does the rule match message m (header as the bus sees it)?  [S] conjunction of all present keys.
// Canonical text of a parsed rule (every value single-quoted), the inverse of parse_match_rule up to key order.
std::string render_rule(const MatchRule& r);

bool rule_matches(const MatchRule& r, const Msg& m, const MatchCtx& cx);

}  // namespace vp
