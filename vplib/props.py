"""Per-property run configuration.  Each property has a list of phases; a phase is
either a libFuzzer campaign ('fuzz') or an enumeration binary ('enum')."""

def P(**kw):
    return kw

PROPS = {
    "C01": P(
        title="untrusted bytes -> message only if spec-valid, safely",
        level="exploration",
        technique="structure-aware coverage-guided fuzzing (libFuzzer) with an independent specification validator/decoder as differential oracle, plus ASan/UBSan on exact-size buffers",
        level_text=("Exploration: generated valid messages of every type/field/nesting shape, every single-site corruption operator, limit-boundary shapes and coverage-guided raw bytes are fed to the "
                    "loader, dbus_message_demarshal and bytes_needed; acceptance, frame count, corruption flag, public-API read-back and re-marshal bytes are compared with an independent decoder. "
                    "A sample of an infinite input space, steered by coverage; not a proof of absence."),
        level_note="Trusts engine/wire.cc + grammar.cc as the reading of the specification; UNSPEC zones (value depth exactly 65, nested-vs-consecutive array depth, h indices) carry no verdict; inputs near 128 MiB are a few fixed shapes only.",
        rule=("case = byte string (+ number of accompanying descriptors) decoded from fuzzer input: structured (valid message from the generator, 0-2 corruption operators, optional second frame), "
              "raw (coverage-guided bytes) or boundary (2^26/2^27 shapes). Non-trivial = the 16-byte fixed header passes the length sanity check and the declared frame is complete, so field and body "
              "validation actually run; distinct = FNV-1a hash of the byte string."),
        phases=[
            P(kind="enum", bin="c01_parse_enum", quick=[], thorough=[], shards_quick=8, shards_thorough=16),
            P(kind="fuzz", bin="c01_parse", runs_quick=240000, runs_thorough=40000000, workers_quick=8, workers_thorough=16, max_len=4096, rss=6000, timeout=60),
        ],
        floor_quick=20000, floor_thorough=1000000,
    ),
    "C16": P(
        title="grammar predicates",
        level="exploration",
        technique="exhaustive small-scope enumeration + structure-aware libFuzzer generation against an independent specification grammar (differential across entry points)",
        level_text=("Exploration: every string up to length 5 (quick) / 7 (thorough) over class-representative alphabets is enumerated exhaustively for all nine predicates and compared with an "
                    "independently written specification grammar through public, internal and message-parsing entry points; lengths around the 255 / 32-nesting limits are sampled by a "
                    "coverage-guided generator. Exhaustive only for the stated alphabets and lengths, a sample beyond."),
        level_note="Trusts engine/grammar.cc as a faithful reading of the specification's grammars (reviewable, 200 lines); ASan/UBSan build; UNSPEC zones (array-depth reading, ':'-namespaces) carry no verdict.",
        rule=("part (a): exhaustive enumeration of all strings up to the stated length over class-representative alphabets "
              "(names/paths: {a Z 0 _ - . : / space NUL 0x80}; signatures: 19 type codes + z r e; UTF-8: 31 lead/continuation boundary bytes), "
              "each checked for every predicate through public, internal(length-taking, two start offsets) and message-parsing entry points against grammar.cc; "
              "part (b): libFuzzer-generated strings of length 248..262 / nesting 29..36 with 0..3 point edits. "
              "A case = (predicate, string); non-trivial = string length >= 2 (both oracles must look past the first character); distinct = hash of (predicate, bytes)."),
        phases=[
            P(kind="enum", bin="c16_grammar_enum", quick=["5", "4", "4", "3", "3"], thorough=["7", "5", "6", "4", "4"], shards_quick=8, shards_thorough=16, exhaustive=True),
            P(kind="fuzz", bin="c16_grammar", runs_quick=60000, runs_thorough=6000000, workers_quick=4, workers_thorough=16, max_len=512),
        ],
        floor_quick=5000, floor_thorough=200000,
    ),
}
