"""Per-property run configuration.  Each property has a list of phases; a phase is
either a libFuzzer campaign ('fuzz') or an enumeration binary ('enum')."""

def P(**kw):
    return kw

PROPS = {
    "C01": P(
        title="untrusted bytes -> message only if spec-valid, safely",
        level="exploration",
        technique="structure-aware coverage-guided fuzzing (libFuzzer) with an independent specification validator/decoder as differential oracle, plus ASan/UBSan on exact-size buffers",
        level_text=("Exploration: generated valid messages of every type/field/nesting shape, every single-site corruption operator, limit-boundary shapes and coverage-guided raw bytes are fed to the "
                    "loader, dbus_message_demarshal and bytes_needed; acceptance, frame count, corruption flag, public-API read-back and re-marshal bytes are compared with an independent decoder. "
                    "A sample of an infinite input space, steered by coverage; not a proof of absence."),
        level_note="Trusts engine/wire.cc + grammar.cc as the reading of the specification; UNSPEC zones (value depth exactly 65, nested-vs-consecutive array depth, h indices) carry no verdict; inputs near 128 MiB are a few fixed shapes only.",
        rule=("case = byte string (+ number of accompanying descriptors) decoded from fuzzer input: structured (valid message from the generator, 0-2 corruption operators, optional second frame), "
              "raw (coverage-guided bytes) or boundary (2^26/2^27 shapes). Non-trivial = the 16-byte fixed header passes the length sanity check and the declared frame is complete, so field and body "
              "validation actually run; distinct = FNV-1a hash of the byte string."),
        phases=[
            P(kind="enum", bin="c01_parse_enum", quick=[], thorough=[], shards_quick=8, shards_thorough=16),
            P(kind="fuzz", bin="c01_parse", runs_quick=240000, runs_thorough=3840000, workers_quick=8, workers_thorough=16, max_len=4096, rss=6000, timeout=60),
        ],
        floor_quick=20000, floor_thorough=100000,
    ),
    "C02": P(
        title="built messages serialise validly and round-trip",
        level="exploration",
        technique="property-based generation of construction programs over the public message API; round-trip + differential oracle against an independent encoder/decoder; metamorphic byte-order relation",
        level_text=("Exploration: generated construction programs (all constructors, setters in generated order, bodies over generated signatures built with append_basic / append_fixed_array / "
                    "open-close container / append_args) are marshalled and checked against an independent codec: validity, requested header and body, canonical body bytes, demarshal + iterator "
                    "read-back, byte-identical re-marshal, big-endian twin read back to the same values and converted to the same native bytes, copy semantics. A coverage-guided sample of all programs."),
        level_note="Trusts engine/wire.cc as encoder/decoder; generator is sound w.r.t. documented API preconditions (valid UTF-8/paths/names, nesting within limits, mandatory fields set, no reuse of a message after abandon_container).",
        rule=("case = construction program decoded from fuzzer input (constructor, setter sequence, body value trees, per-value append API). Non-trivial = body contains a container, or >=2 top-level values, "
              "or >=3 header fields; distinct = FNV-1a of the marshalled bytes."),
        phases=[P(kind="fuzz", bin="c02_build", runs_quick=48000, runs_thorough=768000, workers_quick=8, workers_thorough=16, max_len=4096, rss=6000, timeout=60)],
        floor_quick=4000, floor_thorough=20000,
    ),
    "C03": P(
        title="true sender stamped; unique names unique forever",
        level="exploration",
        technique="stateful model-based testing with raw-socket clients: libFuzzer-generated histories of forged-header messages, repeated/missing Hello and disconnects on an in-process bus; every frame received by clients, an eavesdropper and a monitor is checked against the stamping invariants and the routing model",
        level_text=("Exploration: raw clients write messages of all four types (unicast to unique/unowned names and to the bus, broadcast, destination-less) whose headers carry a forged SENDER (another "
                    "client, the bus name, a never-issued name), unknown field codes 11..255 with generated variant payloads and CONTAINER_INSTANCE, in shuffled field order; clients say Hello late, twice "
                    "or never, and close. Every frame any ordinary client receives must equal the written message with unknown fields and container instance stripped and SENDER = the writer's unique "
                    "name; frames from the bus carry org.freedesktop.DBus; the monitor's copies are checked by body token; unique names are checked against every name ever issued in the process."),
        level_note="Permissive policy only; the name counter is not driven to wrap-around (hook H4 not built); trusts busmodel.cc/wire.cc. One open known finding (destination-less calls are answered without SENDER).",
        rule=("case = history decoded from fuzzer input. Non-trivial = >=2 registered clients and >=1 delivered message that carried a forged SENDER, unknown field or CONTAINER_INSTANCE; distinct = FNV-1a of the log with unique names renamed."),
        phases=[P(kind="fuzz", bin="c03_sender", nopool_odd=True, runs_quick=14000, runs_thorough=224000, workers_quick=12, workers_thorough=16, max_len=1024, rss=4000, timeout=120, detect_leaks=0)],
        floor_quick=800, floor_thorough=4000,
    ),
    "C04": P(
        title="name ownership state machine",
        level="exploration",
        technique="stateful model-based testing: libFuzzer-generated operation histories on an in-process bus with raw socket clients, compared step by step with a reference model of the specification's RequestName/ReleaseName rules",
        level_text=("Exploration: generated histories of RequestName (all 8 flag combinations, occasionally undefined bits), ReleaseName, late Hello and abrupt disconnects by 2-4 raw clients over 3 contended "
                    "names plus invalid/unique/bus names. After every step the reply code or error, every client's NameLost/NameAcquired/NameOwnerChanged frames (addressee, arguments, requester's "
                    "signals before its reply) and GetNameOwner/NameHasOwner/ListQueuedOwners/ListNames are compared with a model transcribed from the specification. Samples the space of histories."),
        level_note="Trusts engine/busmodel.cc (spec transcription) and wire.cc; the daemon runs in-process under the harness' main-loop pumping (single-threaded, like the real daemon); undefined flag bits carry no verdict.",
        rule=("case = operation history decoded from fuzzer input. Non-trivial = some name had >=2 queue entries during the history; distinct = FNV-1a of the operation log with unique names renamed by first appearance."),
        phases=[P(kind="fuzz", bin="c04_names", nopool_odd=True, runs_quick=12000, runs_thorough=192000, workers_quick=12, workers_thorough=16, max_len=512, rss=4000, timeout=120, detect_leaks=0)],
        floor_quick=600, floor_thorough=3000,
    ),
    "C05": P(
        title="unicast: exactly the current owner, once, in order",
        level="exploration",
        technique="stateful model-based testing with serialisation search: libFuzzer-generated histories and multi-client batches on an in-process bus; the observation must equal the routing model's outcome under some order that respects each client's own order",
        level_text=("Exploration: histories of sends (all four message types, flag combinations, to well-known, unique, unowned and departed names), RequestName/ReleaseName and socket closes by 3-4 raw "
                    "clients, issued singly or as batches of 2-4 operations from several clients written before the bus runs; an eavesdropper and a broadcast-only bystander observe; observers may read "
                    "late. Every client's frames (token-carrying bodies, all defined header fields, true sender) are compared in order with the model for every admissible serialisation of the batch; "
                    "undeliverable calls must earn exactly one error with their serial; NoReply errors on callee disconnect are modelled; final registry state is checked."),
        level_note="The daemon is single-threaded: 'schedules' = order in which bytes of different clients become readable, explored through batches (<=4 ops, <=24 serialisations). Eavesdroppers' copies of bus-originated unicast frames and of undeliverable messages are [U] (optional). Trusts busmodel.cc, matchmodel.cc, wire.cc.",
        rule=("case = history decoded from fuzzer input. Non-trivial = some batch contained a send and an ownership change or close affecting its destination; distinct = FNV-1a of the log with unique names renamed."),
        phases=[P(kind="fuzz", bin="c05_unicast", nopool_odd=True, runs_quick=14000, runs_thorough=224000, workers_quick=12, workers_thorough=16, max_len=1024, rss=4000, timeout=120, detect_leaks=0)],
        floor_quick=600, floor_thorough=3000,
    ),
    "C06": P(
        title="security policy decisions equal the documented rule semantics",
        level="exploration",
        technique="model-based testing over generated configurations: libFuzzer-generated policy rule lists (all contexts, all documented attributes) x probe messages x registry states x two uids on an in-process bus, against an independent evaluator of the documented last-match-wins semantics (no pruning)",
        level_text=("Exploration: every case draws a policy - allow/deny rules over type, interface, member, path, error, destination, destination prefix, sender, broadcast, requested-reply, "
                    "eavesdrop, fd-count and own/own_prefix, in the default, per-group, per-user and mandatory contexts, with values from tiny pools so that several rules match the same probe - "
                    "and a cast of three clients under two uids (a sender, an owner of two names, a queued-and-eavesdropping third). 4-20 probes per case (all four message types, optional fields "
                    "present/absent, five kinds of destination or broadcast, replies to real calls or unsolicited) and RequestName probes are compared with the model: delivered exactly where send and "
                    "receive rules both allow, AccessDenied for a denied method call, no ownership change for a denied RequestName."),
        level_note="A fixed scaffold at the end of the mandatory context keeps the harness' own driver calls and the bus' replies/signals permitted; at_console, SELinux/AppArmor, log= are out of scope; plain send_destination/receive_sender against a queued (non-primary) owner and requested-reply state as seen by eavesdroppers are [U]; fd-count attributes are generated but all probes carry 0 fds (C15 covers fds). Trusts policymodel.cc/busmodel.cc.",
        rule=("case = (policy, cast, probes) decoded from fuzzer input. Non-trivial = some probe for which at least one allow and one deny rule match (last-match-wins is decisive); distinct = FNV-1a of policy text + log with unique names renamed."),
        phases=[P(kind="fuzz", bin="c06_policy", nopool_odd=True, runs_quick=6000, runs_thorough=96000, workers_quick=14, workers_thorough=16, max_len=1024, rss=4000, timeout=120, detect_leaks=0)],
        floor_quick=600, floor_thorough=3000,
    ),
    "C07": P(
        title="broadcasts reach exactly the matching connections",
        level="exploration",
        technique="stateful model-based testing with a grammar-based rule generator: libFuzzer-generated AddMatch/RemoveMatch/disconnect/broadcast histories on an in-process bus vs. an independent match-rule parser+matcher; ASan/UBSan decide the memory clause",
        level_text=("Exploration: rule strings are generated from the specification's grammar (every key, four quoting styles, permuted keys, empty values, argN for N in {0,1,2,9,10,63}, argNpath, "
                    "arg0namespace, eavesdrop) plus 14 kinds of ungrammatical mutants and length probes at 1023..1026 bytes; histories on 2-4 raw clients add and remove rules (same text, equivalent "
                    "text, never-added), disconnect, and broadcast signals whose fields and leading arguments come from pools of mutually prefix-related values. AddMatch/RemoveMatch answers and the "
                    "exact delivery set of every broadcast are compared with the model; the daemon runs under ASan/UBSan."),
        level_note="Trusts engine/matchmodel.cc; UNSPEC rule shapes (whitespace, empty segments, >16 pairs, destination= well-known name, two kinds of match on one argument, RemoveMatch of a rule naming a departed unique name) carry no verdict; unicast copies seen by eavesdrop='true' holders are ignored here (C05/C18).",
        rule=("case = history decoded from fuzzer input. Non-trivial = some broadcast was evaluated against >=2 rules on >=2 connections with >=1 match and >=1 non-match; distinct = FNV-1a of the log with unique names renamed."),
        phases=[P(kind="fuzz", bin="c07_match", nopool_odd=True, runs_quick=16000, runs_thorough=256000, workers_quick=12, workers_thorough=16, max_len=1024, rss=4000, timeout=120, detect_leaks=0)],
        floor_quick=800, floor_thorough=4000,
    ),
    "C08": P(
        title="authenticated only after a valid SASL exchange",
        level="exploration",
        technique="model-based testing of the server handshake: libFuzzer-generated command scripts, credentials, mechanism sets and chunkings against the in-process DBusAuth object with the harness as an interactive client (independent SHA-1 for cookie responses), plus raw handshakes against the in-process bus under two uids",
        level_text=("Exploration: (i) the server handshake object is created with generated socket credentials (uid 0, 1, 4242 or none), allowed-mechanism set and fd-passing capability and driven with "
                    "scripts over AUTH (each mechanism, unknown, with/without initial response; identity = socket uid, another uid, user names, garbage, empty), DATA (right, wrong, bad hex), CANCEL, "
                    "ERROR, BEGIN, NEGOTIATE_UNIX_FD, unknown and non-ASCII lines, 17 KB lines, fed whole, byte-wise or in random chunks, with bytes after BEGIN. DBUS_COOKIE_SHA1 challenges are "
                    "answered from the real keyring file with an independent SHA-1: correct, wrong hash, other secret, malformed. Response class per line, permitted-mechanism list, 6-rejection and "
                    "16 KiB cut-offs, final state, reported identity and unused bytes are compared with a model of the specification's state machine; AUTHENTICATED without a modelled valid exchange "
                    "+ BEGIN is a violation. (ii) raw handshakes on sockets under uid 0 and uid 1 against the in-process bus: Hello answered iff valid exchange for the socket's own identity + BEGIN "
                    "and the bus admits the user/anonymous; GetConnectionCredentials reports the socket uid; a binary Hello before BEGIN is never answered."),
        level_note="Trusts the model in targets/c08_auth.cc (transcribed from the specification's authentication state diagrams) and engine/sha1.cc; cookie ages are produced by pre-populating the keyring with generated timestamps relative to the real clock (expired, too old to hand out, fresh, future): the challenge must name a cookie at most 300 s old; hex case and ERROR texts are [U].",
        rule=("case = (server configuration, script, chunking) decoded from fuzzer input. Non-trivial = the script reaches WaitingForData or an OK (a well-formed AUTH for a permitted mechanism); distinct = FNV-1a of configuration + command-class sequence (phase i) / of the log (phase ii)."),
        phases=[P(kind="fuzz", bin="c08_auth", runs_quick=300000, runs_thorough=4800000, workers_quick=8, workers_thorough=16, max_len=512, rss=4000, timeout=60),
                P(kind="fuzz", bin="c08_busauth", nopool_odd=True, runs_quick=4000, runs_thorough=64000, workers_quick=8, workers_thorough=16, max_len=512, rss=4000, timeout=120, detect_leaks=0)],
        floor_quick=2000, floor_thorough=10000,
    ),
    "C09": P(
        title="only the addressee of a pending call can answer it, once",
        level="exploration",
        technique="stateful model-based testing under a requested-replies-only policy: libFuzzer-generated histories and batches (belief-set serialisation search) on an in-process bus under a virtual clock, compared with a reply-slot model",
        level_text=("Exploration: histories of method calls (fresh and reused serials, NO_REPLY_EXPECTED), genuine / duplicate / wrong-serial / third-party / to-third-party replies and errors, "
                    "closes of callers and callees, a small max_replies_per_connection, and virtual time passing beyond a finite reply_timeout, issued singly or in batches of 2-3 from several clients. "
                    "Every client's frames are compared in order with the slot model: a reply passes iff an open (caller, callee, serial) slot exists and is consumed; everything else earns its sender "
                    "AccessDenied and reaches nobody (a bystander holding type= rules must see nothing); callee disconnect / expiry yield exactly one NoReply per open slot."),
        level_note="Policy is the fixed requested-replies-only configuration (C06 varies policies); time is the harness' virtual clock (hook H1), advanced in steps that never land exactly on the timeout; trusts busmodel.cc.",
        rule=("case = history decoded from fuzzer input. Non-trivial = >=1 illegitimate reply attempt after >=1 legitimate call; distinct = FNV-1a of the log with unique names renamed."),
        phases=[P(kind="fuzz", bin="c09_replies", nopool_odd=True, runs_quick=14000, runs_thorough=224000, workers_quick=12, workers_thorough=16, max_len=1024, rss=4000, timeout=120, detect_leaks=0)],
        floor_quick=600, floor_thorough=3000,
    ),
    "C18": P(
        title="a monitor sees everything that matches and can affect nothing",
        level="exploration",
        technique="stateful model-based testing: libFuzzer-generated traffic histories with clients turning into monitors (empty or selective filters) on an in-process bus; ordinary clients are compared with a model in which BecomeMonitor is a disconnect (metamorphic relation), monitors with the exact multiset of client-written and bus-originated frames",
        level_text=("Exploration: histories of sends of all four types (deliverable, undeliverable, to a monitor's former name), RequestName/ReleaseName, closes and late connects by 3-4 raw clients "
                    "holding assorted match rules, with up to two clients becoming monitors at any point (while owning or queued for names), with empty or selective filters, or with an invalid rule. "
                    "After every step each ordinary client's frames must equal the model in which the monitor simply disconnected; each monitor must hold exactly one stamped copy of every client-written "
                    "message and of every bus-originated frame (replies, errors to refused messages, NameLost/NameAcquired, NameOwnerChanged even without recipients) that matches its filter; registry "
                    "queries must not mention monitors; a monitor that sends is disconnected without effect on others; an invalid BecomeMonitor changes nothing."),
        level_note="Single operations only (no batches); filters use type/interface/member keys only (sender=/destination= in monitor filters are [U] with respect to ownership timing); the unprivileged-uid refusal of BecomeMonitor is exercised in C06's multi-user setup, not here; trusts busmodel.cc.",
        rule=("case = history decoded from fuzzer input. Non-trivial = a monitor is present and afterwards a refused/undeliverable message, an ownership change or a misbehaving monitor occurs; distinct = FNV-1a of the log with unique names renamed."),
        phases=[P(kind="fuzz", bin="c18_monitor", nopool_odd=True, runs_quick=12000, runs_thorough=192000, workers_quick=12, workers_thorough=16, max_len=1024, rss=4000, timeout=120, detect_leaks=0)],
        floor_quick=300, floor_thorough=1500,
    ),
    "C10": P(
        title="one misbehaving client cannot crash, corrupt or stall the bus",
        level="exploration",
        technique="coverage-guided structure-aware fuzzing (libFuzzer, ASan+UBSan, assertions on) of an in-process bus with hostile raw clients, with semantic oracles inside the target: bounded-iteration liveness of a well-behaved client pair measured before the bus has digested each attack, differential stream verdict (independent wire validator vs. EOF on the hostile socket), and a visibility invariant over every frame a bystander, a service and a monitor receive",
        level_text=("Exploration: histories of up to 4 authenticated and up to 24 unauthenticated hostile connections around a well-behaved pair P->Q, a watcher with a catch-all signal rule and a monitor. "
                    "Hostile streams: valid messages (to the pair, broadcasts, every bus driver method on five interfaces with arbitrary or plausible arguments, guessed reply serials) mixed with 20 single-site byte corruptions, 5 structural corruptions, "
                    "15 limit values in the two header length words, frames over max_message_size, floods of up to 121 copies, garbage, truncation followed by silence or close, written in 1-3 chunks with loop iterations in between; "
                    "pre-authentication: empty, partial and garbage handshakes, 40 kB lines, binary messages without authentication, bursts beyond max_incomplete_connections, virtual time across auth_timeout. "
                    "Checked after every step: the P->Q->P round trip and a driver call by P complete with the right payload within 300 loop iterations (observed maximum is recorded); the loop becomes idle; a hostile whose stream the independent validator rejects is at EOF; "
                    "every frame the pair, the watcher and the monitor receive is valid and is from the bus, the pair, or the stamped copy of a valid hostile frame in order; unauthenticated connections are gone after the timeouts and a newcomer is then served; no block or descriptor is leaked at shutdown."),
        level_note="'Bounded time' is measured in main-loop iterations of the in-process bus under a virtual clock, not wall-clock latency of a separate daemon process; the bus and all clients share one thread, so kernel-level scheduling effects are not explored. Flood sizes stay below the outgoing-queue limits.",
        rule=("case = history decoded from fuzzer input. Non-trivial = an authenticated hostile wrote a stream the validator rejects and >=1 round trip ran afterwards; distinct = FNV-1a of the log with unique names renamed."),
        phases=[P(kind="fuzz", bin="c10_hostile", nopool_odd=True, runs_quick=9000, runs_thorough=144000, workers_quick=12, workers_thorough=16, max_len=2048, rss=4000, timeout=120, detect_leaks=0)],
        floor_quick=400, floor_thorough=2000,
    ),
    "C11": P(
        title="framing independent of chunking",
        level="exploration",
        technique="metamorphic property-based testing (any partition of a stream == the unsplit stream) on the message loader, cross-checked against an independent stream decoder; libFuzzer-generated streams and cut points",
        level_text=("Exploration: streams of 1-6 generated valid messages of varied sizes/byte orders, optionally followed by a corrupted message and further bytes, are fed to two loaders - whole and "
                    "under a generated partition (1-byte, message boundaries, inside fixed headers, fixed step, random cuts; with or without honouring the loader's read-size hint). Popped frames, "
                    "their bytes and the corruption flag must be identical and equal the independent decoding. Transport level (c11_transport): a server-side DBusConnection on a socketpair receives a pipelined client "
                    "handshake (three variants) immediately followed by such a stream, written once whole and once under a generated partition of handshake+stream (1-byte, cuts inside 'BEGIN\\r\\n' and the first fixed header, BEGIN and message "
                    "bytes in one write, boundaries only, fixed step, random); dispatched messages, their order and the disconnect decision must agree between the two runs and with the independent decoding. Samples the space of (stream, partition) pairs."),
        level_note="DBusMessageLoader via libdbus-internal, and the unix socket transport on a socketpair (no TCP, no nonce transport). Trusts engine/wire.cc.",
        rule=("case = (stream, ordered cut points) decoded from fuzzer input. Non-trivial = loader level: >=2 messages and >=1 cut strictly inside a message; transport level: the write carrying the last byte of BEGIN also carries message bytes, or a cut falls inside BEGIN\\r\\n or the first 16 message bytes; distinct = FNV-1a of stream bytes + cut list."),
        phases=[P(kind="fuzz", bin="c11_chunk", runs_quick=40000, runs_thorough=640000, workers_quick=8, workers_thorough=16, max_len=4096, rss=6000, timeout=60),
                # transport level: the handshake-to-message boundary (server-side DBusConnection on a socketpair, chosen write sizes)
                P(kind="fuzz", bin="c11_transport", runs_quick=16000, runs_thorough=256000, workers_quick=8, workers_thorough=16, max_len=2048, rss=6000, timeout=60)],
        floor_quick=3000, floor_thorough=15000,
    ),
    "C12": P(
        title="header edits keep a message valid",
        level="exploration",
        technique="stateful property-based testing: generated edit sequences on built and received messages against a field-list model, each step validated by an independent decoder",
        level_text=("Exploration: generated sequences of 1-12 header edits (set / replace with values of length 3..255 / delete for destination, sender, path, interface, member, error name, container "
                    "instance; reply serial; strip unknown fields; flag toggles) on locally built messages and on messages demarshalled from independent encodings with arbitrary field order, unknown "
                    "fields and either byte order. After every edit the marshalled form must be well-formed (fully valid when mandatory fields are present), decoded fields must equal the model, and "
                    "type, serial, flags, signature and body must be unchanged; accessors are compared as well."),
        level_note="Trusts engine/wire.cc; the model demands only what the property states (edited field reads back as set, other fields keep value and relative order).",
        rule=("case = initial message + edit sequence decoded from fuzzer input. Non-trivial = >=2 edits of which one changes the length of, or deletes, a field that is not last (or strips >=1 unknown field); "
              "distinct = FNV-1a of initial message description + edit list."),
        phases=[P(kind="fuzz", bin="c12_hdredit", runs_quick=80000, runs_thorough=1280000, workers_quick=8, workers_thorough=16, max_len=4096, rss=6000, timeout=60)],
        floor_quick=5000, floor_thorough=25000,
    ),
    "C13": P(
        title="configured resource limits are never exceeded",
        level="exploration",
        technique="stateful model-based testing over generated configurations: libFuzzer-generated limit values and histories (connect/auth/Hello/close by two users, names, match rules, outstanding calls, sized messages) on an in-process bus vs. model counters, with probes that a refused request changed nothing",
        level_text=("Exploration: every history draws its own configuration (max_completed_connections 2-5, max_connections_per_user 1-4, max_incomplete_connections 1-3, max_names_per_connection 2-4, "
                    "max_match_rules_per_connection 1-3, max_replies_per_connection 1-3, max_message_size 512-4096) and interleaves connects (handshake written immediately), Hello, closes by one or "
                    "two uids, RequestName/ReleaseName, AddMatch/RemoveMatch with per-rule probe signals, calls and replies, and messages sized limit-8..limit+8. The request that would exceed a limit "
                    "must be refused with LimitsExceeded (or the socket left unserved) and change nothing (registry query / probe signal), requests below the limit behave normally, freed capacity is "
                    "usable again, and an oversize message disconnects only its sender."),
        level_note="Single operations (no batches); auth_timeout is not exercised here (C10); the second uid is obtained with a short-lived setresuid child (root in the sandbox); re-requesting an already held name exactly at the name limit is [U] and not generated. The unique name counts as a name [D test/dbus-daemon.c].",
        rule=("case = (configuration, history) decoded from fuzzer input. Non-trivial = the history hits a limit, frees capacity and uses it again; distinct = FNV-1a of the log (which includes the limit values) with unique names renamed."),
        phases=[P(kind="fuzz", bin="c13_limits", nopool_odd=True, runs_quick=14000, runs_thorough=224000, workers_quick=12, workers_thorough=16, max_len=1024, rss=4000, timeout=120, detect_leaks=0)],
        floor_quick=200, floor_thorough=1000,
    ),
    "C14": P(
        title="out-of-memory at any point leaves state unchanged and leaks nothing",
        level="fault_enumeration",
        technique="fault-injection enumeration inside libFuzzer-generated cases: for every generated (prior history, request) or (object, operation) the k-th allocation is made to fail for every k until the countdown no longer fires (libdbus' built-in failing allocator; hook H3 adds a second failure after a generated gap), and after each injected run the observable state is compared with a reference model or with the pre-operation snapshot, plus a block-count/descriptor leak check and a retry",
        level_text=("Exploration. Bus part (c14_busoom): prior histories of 0-6 operations over three registered clients, an unregistered one and an observer (RequestName with all 8 flag combinations on two contended names, ReleaseName, AddMatch/RemoveMatch from a pool of 6 rules, "
                    "method calls that leave reply slots, replies, broadcast and unicast signals, Hello); then one request of the same kinds handled while allocation k fails, for k = 0,1,2,... until the request completes without the failure firing (typically 40-120 runs per case). "
                    "After each run: the frames at every client must be either the complete modelled effect or nothing but a NoMemory error to the caller; a NoMemory outcome is retried and must then produce the modelled effect; GetNameOwner/NameHasOwner/ListQueuedOwners/ListNames, "
                    "four probe signals exercising every rule, and the NoReply errors and NameOwnerChanged signals produced by closing every client must agree with the model; no libdbus block or descriptor may remain at shutdown. A further phase takes the injected request from the driver's read-only methods (GetNameOwner, NameHasOwner, ListQueuedOwners, GetConnectionUnixUser/Credentials/UnixProcessID, ListNames, ListActivatableNames, GetId, Introspect, Properties.GetAll) and ReloadConfig with an unchanged configuration file, where nothing may change under either outcome. "
                    "Library part (c14_liboom): generated valid messages (any field order, unknown fields, either byte order) under header edits (six string setters incl. clearing and 40-240 byte values, set_reply_serial), top-level appends, container appends, dbus_message_copy, marshal, demarshal; "
                    "match-rule texts from 22 clause shapes (valid and invalid, up to 1.1 kB); bus configuration files (limits, 1-3 policy blocks of 5 contexts with 15 rule shapes, servicedir/includedir/user/fork/apparmor/syslog elements, unknown elements). Each operation runs once without injection (reference) and once per failing allocation index; "
                    "a reported failure must leave the message marshalling to the bytes it had before and the repeated operation must succeed, a reported success must equal the reference, demarshal/parse must say NoMemory or the reference verdict, and the block count must return to its level."),
        level_note="Failures are injected into dbus_malloc/realloc and the memory pools (what libdbus' own countdown covers), not into the kernel or libc (socket buffers, getpwuid); pairs of failures are explored for a generated gap per case, not for all pairs; ReloadConfig is injected only with an unchanged configuration file (a half-applied *changed* configuration is not explored).",
        rule=("case = (history, request) decoded from fuzzer input, enumerated over every failing allocation index. Non-trivial = >=2 prior operations, the countdown fired in >=1 run and >=1 run ended in NoMemory; distinct = FNV-1a of the normalised history and request."),
        phases=[P(kind="enum", bin="c14_busoom_enum", nopool_odd=True, quick=["420", "96"], thorough=["6000", "96"], shards_quick=14, shards_thorough=16),
                # pairs of failures: the second one a generated gap (0-11 allocations) after the first (hook H3)
                P(kind="enum", bin="c14_liboom_enum", quick=["2800", "128"], thorough=["45000", "128"], shards_quick=14, shards_thorough=16),
                P(kind="enum", bin="c14_busoom_enum", nopool_odd=True, quick=["100210", "96", "100000"], thorough=["103000", "96", "100000"], shards_quick=14, shards_thorough=16, env={"VP_PAIRS": "1"}),
                P(kind="enum", bin="c14_busoom_enum", nopool_odd=True, quick=["200150", "96", "200000"], thorough=["202400", "96", "200000"], shards_quick=14, shards_thorough=16, env={"VP_QUERIES": "1"})],
        floor_quick=100, floor_thorough=500,
    ),
    "C15": P(
        title="passed file descriptors arrive intact and are never leaked",
        level="exploration",
        technique="stateful model-based testing with a resource-conservation invariant: libFuzzer-generated histories of fd-carrying messages on an in-process bus with raw clients; received descriptors are identified by fstat/lseek, and the process' descriptor table is compared with a per-connection surplus model at every quiescent point",
        level_text=("Exploration: raw clients that did or did not negotiate fd passing attach 0-6 memfd descriptors (distinct inodes and file offsets) by sendmsg to messages whose UNIX_FDS header "
                    "is smaller than, equal to or larger than the attached count, addressed to a capable recipient, a recipient without fd passing, an unowned name, a policy-denied interface; some "
                    "messages are sent only up to their first 24 bytes (descriptors pending) and completed later or never; clients close at any point; virtual time passes beyond pending_fd_timeout. "
                    "Checked: descriptors arrive only on negotiated connections, in the announced number and order, as the same open files; senders of messages announcing more descriptors than "
                    "received, or attaching more than max_message_unix_fds allows, are disconnected; surplus descriptors keep a connection only until pending_fd_timeout; and at every quiescent point "
                    "the number of open descriptors in the process equals baseline + 2 per live client + the model's surplus, returning to the baseline after all clients closed."),
        level_note="The bus runs in-process, so 'the bus' descriptor table' is /proc/self/fd minus what the harness owns (it closes every received descriptor at once); max_incoming_unix_fds flow control and queue-full paths are not driven; descriptors attached to a later byte of a message are not generated ([U]: the kernel may discard them).",
        rule=("case = history decoded from fuzzer input. Non-trivial = >=1 fd-carrying message that ended on a failure path (sender disconnected, denied, incapable recipient, undeliverable, pending too long, closed with surplus); distinct = FNV-1a of the log with unique names renamed."),
        phases=[P(kind="fuzz", bin="c15_fds", nopool_odd=True, runs_quick=12000, runs_thorough=192000, workers_quick=12, workers_thorough=16, max_len=1024, rss=4000, timeout=120, detect_leaks=0)],
        floor_quick=400, floor_thorough=2000,
    ),
    "C16": P(
        title="grammar predicates",
        level="exploration",
        technique="exhaustive small-scope enumeration + structure-aware libFuzzer generation against an independent specification grammar (differential across entry points)",
        level_text=("Exploration: every string up to length 5 (quick) / 7 (thorough) over class-representative alphabets is enumerated exhaustively for all nine predicates and compared with an "
                    "independently written specification grammar through public, internal and message-parsing entry points; lengths around the 255 / 32-nesting limits are sampled by a "
                    "coverage-guided generator. Exhaustive only for the stated alphabets and lengths, a sample beyond."),
        level_note="Trusts engine/grammar.cc as a faithful reading of the specification's grammars (reviewable, 200 lines); ASan/UBSan build; UNSPEC zones (array-depth reading, ':'-namespaces) carry no verdict.",
        rule=("part (a): exhaustive enumeration of all strings up to the stated length over class-representative alphabets "
              "(names/paths: {a Z 0 _ - . : / space NUL 0x80}; signatures: 19 type codes + z r e; UTF-8: 31 lead/continuation boundary bytes), "
              "each checked for every predicate through public, internal(length-taking, two start offsets) and message-parsing entry points against grammar.cc; "
              "part (b): libFuzzer-generated strings of length 248..262 / nesting 29..36 with 0..3 point edits. "
              "A case = (predicate, string); non-trivial = string length >= 2 (both oracles must look past the first character); distinct = hash of (predicate, bytes)."),
        phases=[
            P(kind="enum", bin="c16_grammar_enum", quick=["5", "4", "4", "3", "3"], thorough=["7", "5", "6", "4", "4"], shards_quick=8, shards_thorough=16, exhaustive=True),
            P(kind="fuzz", bin="c16_grammar", runs_quick=60000, runs_thorough=960000, workers_quick=4, workers_thorough=16, max_len=512),
        ],
        floor_quick=5000, floor_thorough=25000,
    ),
    "C17": P(
        title="every call awaiting a reply completes exactly once",
        level="exploration",
        technique="stateful model-based testing of one private DBusConnection against a scripted raw peer under a harness-owned main loop and virtual clock: libFuzzer-generated schedules of calls, replies (any order, duplicated, unknown, split), time steps, cancel, block, dispatch, notify, steal and peer close vs. a per-call completion model",
        level_text=("Exploration: up to 40 calls per history with timeouts of 1 s, 6 s, 30 s, default and infinite; the raw peer answers in any order, twice, for unknown serials, in two partial "
                    "writes; virtual time passes in steps that let short timeouts fire while replies sit unread; calls are cancelled, blocked on, given a notify before or after completion, their "
                    "replies stolen; the peer closes with calls outstanding. After every step get_completed of every call must equal the model, a notify set while pending must have run exactly once "
                    "iff completed and never for a cancelled call, replies that pair with no pending call must reach ordinary dispatch (a filter records them) and paired ones must not, stolen "
                    "replies must carry the call's serial and come from the peer or be a local NoReply/Disconnected/Timeout error, serials are non-zero and distinct."),
        level_note="c17_pending is single-threaded under the virtual clock (hooks H1/H2; dbus_pending_call_block is only invoked when it can terminate). The clause 'from several threads' is only sampled: c17_threads shares one connection between 2-4 threads in real time (calls completed by blocking, by notify + dispatch loop, by send_with_reply_and_block, or cancelled; the peer thread answers now / out of order / twice / with an error / never) and checks exactly-once completion with the right token, distinct non-zero serials, no notification of cancelled calls, a 20 s hang watchdog and sanitizer silence; it does not control the interleaving, so schedule-specific defects can escape.",
        rule=("case = schedule decoded from fuzzer input. Non-trivial = >=2 outstanding calls and (out-of-order or duplicate replies, or time passing / cancel while replies are written but unread, or peer close with calls outstanding); distinct = FNV-1a of the log."),
        phases=[P(kind="fuzz", bin="c17_pending", runs_quick=100000, runs_thorough=1600000, workers_quick=8, workers_thorough=16, max_len=512, rss=4000, timeout=60),
                # threads clause: sampling stress of one connection shared by 2-4 threads (real time; see level_note)
                P(kind="fuzz", bin="c17_threads", race=True, rounds_thorough=1, env={"DBUS_DISABLE_MEM_POOLS": "1"}, runs_quick=2400, runs_thorough=67200, workers_quick=8, workers_thorough=6, max_len=256, rss=4000, timeout=60, detect_leaks=0)],
        floor_quick=800, floor_thorough=4000,
    ),
    "C19": P(
        title="auto-started services get held messages once, in order, or callers get errors",
        level="exploration",
        technique="stateful model-based testing with generated histories (enumeration front end over splitmix-derived cases) of an in-process bus that really spawns a scripted service process, compared with a per-name model of the pending activation; and differential testing of the activation helper's validation chain against an independent reading of the service file and /bin/sh's word splitting",
        level_text=("Exploration. Bus part (c19_activation): 1-3 activatable names whose Exec is the scripted service tools/vp_service.cc with one of 9 generated behaviours (takes the name at once / when the harness releases it / never / takes another name / exits 0 / exits 3 / connects then exits / is killed / executable missing); "
                    "2-3 senders issue auto-starting calls, StartServiceByName and NO_AUTO_START calls to the same and different names before, while and after the service comes up; virtual time passes in thirds of and beyond service_start_timeout. "
                    "Checked: the process-start log shows exactly one start per activation; joined requests spawn nothing; once the name is taken every StartServiceByName waiter gets SUCCESS and the service's receive log equals the held calls in arrival order followed by later direct calls, each answered to its caller with its token; "
                    "on exec failure, non-zero exit, kill or timeout every waiting request gets exactly one error from the bus and no success; NO_AUTO_START calls are refused at once and start nothing; no reply is left unexplained; nothing leaks at shutdown. "
                    "Helper part (c19_helper): run_launch_helper() (test variant of bus/activation-helper.c) in a forked child with name arguments from 4 valid, 14 invalid shapes (empty, no period, empty element, path traversal, trailing newline/space, leading digit, '/' and '-' forms), names of 250-259 bytes and unique names, "
                    "against 1-2 configured and one unconfigured service directory holding generated <name>.service files: valid, mismatching Name, missing Name/Exec/User, keys under another section, unparsable, unterminated quote, missing program, with comments and decoy sections; Exec lines carry 0-3 arguments over [a-zA-Z0-9/._- '\"\\] rendered with four quoting styles. "
                    "Oracle: independent reading of the generated files (first loadable file in configured order decides) gives EXEC / NO-EXEC; an executed program's argv (logged by the stub) must equal /bin/sh's splitting of the Exec line."),
        level_note="The service is a real child process, so each case costs ~0.2 s and waits use bounded real time (10 s) besides the virtual clock; exit status 0 without taking the name is modelled as 'pending until the timeout' as bus/activation.c documents. Policy-denied held messages, systemd activation and <servicehelper> (setuid helper launched by the bus) are not driven.",
        rule=("case = history decoded from generated bytes. Non-trivial = >=2 requests were waiting on one activation when it succeeded or failed; distinct = FNV-1a of the normalised log."),
        phases=[P(kind="enum", bin="c19_helper_enum", quick=["6000", "96"], thorough=["100000", "96"], shards_quick=12, shards_thorough=16, env={"ASAN_OPTIONS": "abort_on_error=0:detect_leaks=0:symbolize=1:allocator_may_return_null=1:detect_odr_violation=0:handle_abort=1"}),
                P(kind="enum", bin="c19_activation_enum", nopool_odd=True, quick=["1400", "96"], thorough=["20000", "96"], shards_quick=14, shards_thorough=16, env={"ASAN_OPTIONS": "abort_on_error=0:detect_leaks=0:symbolize=1:allocator_may_return_null=1:detect_odr_violation=0:handle_abort=1"})],
        floor_quick=150, floor_thorough=750,
    ),
    "C20": P(
        title="object-path handlers: exact path, then nearest fallback",
        level="exploration",
        technique="stateful model-based testing of one DBusConnection with a scripted raw peer: libFuzzer-generated register / register-fallback / unregister / incoming-call / list histories against a path-map model",
        level_text=("Exploration: histories over 12 pool paths with shared prefixes and adjacently sorting siblings ('/', '/a', '/a/b', '/a/b/c', '/a/bb', '/a/b_', '/ab', '/a/B', '/a/b0' ...), handlers that "
                    "handle or decline, registered exactly or as fallbacks, unregistered in the middle of histories; incoming method calls to paths inside, beside and below the registrations written by "
                    "a raw peer. The recorded handler invocation order must be: exact handler, then fallbacks of successively shorter ancestors, stopping at the first HANDLED; with no taker the "
                    "reply read from the socket must be UnknownMethod iff the path is registered, an ancestor of a registered path or below a fallback registration, else UnknownObject; registering "
                    "an occupied path must fail with ObjectPathInUse and change nothing; dbus_connection_list_registered must list exactly the model's immediate children."),
        level_note="One connection, one thread; built-in Introspect/Peer replies are not generated; unregistering an unregistered path is a documented caller error and not generated. Trusts the 30-line model in targets/c20_objpath.cc.",
        rule=("case = history decoded from fuzzer input. Non-trivial = >=3 registrations sharing a prefix and a call with >=2 candidate handlers; distinct = FNV-1a of the log."),
        phases=[P(kind="fuzz", bin="c20_objpath", runs_quick=160000, runs_thorough=2560000, workers_quick=8, workers_thorough=16, max_len=512, rss=4000, timeout=60)],
        floor_quick=2000, floor_thorough=10000,
    ),
}
