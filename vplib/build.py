"""Build of the code under test and of the harness (everything offline, from files on disk).

/verif/build/san   out-of-tree CMake+Ninja build of /repo (ASan+UBSan+fuzzer-no-link, hooks on)
/verif/build/obj   engine objects, target objects
/verif/build/bin   target binaries
"""
import fcntl, os, subprocess, sys, shlex, time

VERIF = os.path.dirname(os.path.dirname(os.path.abspath(__file__)))
REPO = os.environ.get("VP_REPO", "/repo")
BUILD = os.path.join(VERIF, "build") if REPO == "/repo" else os.path.join(os.environ.get("VP_BUILD", "/tmp/vp-build-" + str(abs(hash(REPO)) % 100000)))
SAN = os.path.join(BUILD, "san")
GUARD = "DBUS_VERIF_HOOKS"

SAN_CFLAGS = ("-O1 -g -fno-omit-frame-pointer -fsanitize=address,undefined -fno-sanitize-recover=undefined "
              "-fsanitize-coverage=inline-8bit-counters,indirect-calls,pc-table -fsanitize-ignorelist=%s/engine/ubsan-ignore.txt -D%s -Wno-error -w" % (VERIF, GUARD))

CMAKE_OPTS = [
    "-DCMAKE_BUILD_TYPE=None",
    "-DDBUS_BUILD_TESTS=ON", "-DDBUS_ENABLE_EMBEDDED_TESTS=ON", "-DDBUS_ENABLE_MODULAR_TESTS=OFF",
    "-DDBUS_DISABLE_ASSERT=OFF", "-DDBUS_DISABLE_CHECKS=OFF", "-DDBUS_WITH_GLIB=OFF", "-DDBUS_BUILD_X11=OFF",
    "-DENABLE_SYSTEMD=OFF", "-DDBUS_ENABLE_DOXYGEN_DOCS=OFF", "-DDBUS_ENABLE_XML_DOCS=OFF", "-DENABLE_QT_HELP=OFF",
    "-DDBUS_ENABLE_VERBOSE_MODE=ON",
]

DBUS_TARGETS = ["dbus-1", "dbus-internal", "dbus-daemon-internal", "launch-helper-internal"]

ENGINE_SRCS = ["grammar.cc", "wire.cc", "stats.cc"]
OPTIONAL_ENGINE_SRCS = ["gen.cc", "sha1.cc", "busmodel.cc", "inproc_bus.cc", "bushelp.cc", "rawpeer.cc", "libwalk.cc", "matchmodel.cc", "policymodel.cc", "enumdrv.cc"]

CXX = "clang++"
CXXFLAGS = ("-std=gnu++17 -g -O1 -fno-omit-frame-pointer -fsanitize=address,undefined -fno-sanitize-recover=undefined "
            "-fsanitize-ignorelist=%s/engine/ubsan-ignore.txt -DDBUS_COMPILATION -DHAVE_CONFIG_H -D%s -Wall -Wno-unused-function -Wno-unused-variable" % (VERIF, GUARD))


def log(msg):
    sys.stderr.write("[vp] %s\n" % msg)
    sys.stderr.flush()


class Lock:
    def __init__(self, path):
        self.path = path
    def __enter__(self):
        os.makedirs(os.path.dirname(self.path), exist_ok=True)
        self.f = open(self.path, "w")
        fcntl.flock(self.f, fcntl.LOCK_EX)
        return self
    def __exit__(self, *a):
        fcntl.flock(self.f, fcntl.LOCK_UN)
        self.f.close()


def run(cmd, **kw):
    r = subprocess.run(cmd, stdout=subprocess.PIPE, stderr=subprocess.STDOUT, text=True, **kw)
    return r.returncode, r.stdout


def configure_san(force=False):
    if os.path.exists(os.path.join(SAN, "build.ninja")) and not force:
        return
    os.makedirs(SAN, exist_ok=True)
    env = dict(os.environ, CC="clang")
    cmd = ["cmake", "-G", "Ninja", "-S", REPO, "-B", SAN, "-DCMAKE_C_FLAGS=" + SAN_CFLAGS] + CMAKE_OPTS
    log("configuring sanitizer build of %s" % REPO)
    rc, out = run(cmd, env=env)
    open(os.path.join(BUILD, "san-configure.log"), "w").write(out)
    if rc != 0:
        sys.stderr.write(out[-4000:])
        raise SystemExit(2)


def build_san():
    configure_san()
    rc, out = run(["ninja", "-C", SAN] + DBUS_TARGETS)
    if rc != 0 and "build.ninja" in out and ("missing" in out or "dirty" in out):
        configure_san(force=True)
        rc, out = run(["ninja", "-C", SAN] + DBUS_TARGETS)
    if rc != 0:
        # a changed tree may need a re-configure (added/removed files)
        configure_san(force=True)
        rc, out = run(["ninja", "-C", SAN] + DBUS_TARGETS)
    if rc != 0:
        sys.stderr.write(out[-6000:])
        log("BUILD FAILED: the tree under test does not compile with the sanitizer configuration")
        raise SystemExit(2)


# target name -> (source, extra cxx flags, fuzzer?)
def target_table():
    t = {}
    tdir = os.path.join(VERIF, "targets")
    for fn in sorted(os.listdir(tdir)):
        if not fn.endswith(".cc"):
            continue
        name = fn[:-3]
        src = open(os.path.join(tdir, fn)).read()
        t[name] = (fn, "", True)
        if "VP_ENUM" in src:
            t[name + "_enum"] = (fn, "-DVP_ENUM", False)
    return t


def write_ninja():
    obj = os.path.join(BUILD, "obj")
    binp = os.path.join(BUILD, "bin")
    os.makedirs(obj, exist_ok=True)
    os.makedirs(binp, exist_ok=True)
    inc = "-I%s -I%s -I%s/engine" % (REPO, SAN, VERIF)
    import glob as _glob
    dbus1_objs = sorted(_glob.glob(os.path.join(SAN, "dbus", "CMakeFiles", "dbus-1.dir", "*.o")))
    dbus1_static = os.path.join(obj, "libdbus-1-static.a")
    libs = [os.path.join(SAN, "lib", x) for x in ("libdbus-daemon-internal.a", "libdbus-internal.a")] + [dbus1_static]
    L = []
    L.append("cxx = %s" % CXX)
    L.append("cxxflags = %s %s" % (CXXFLAGS, inc))
    L.append("rule cc\n  command = $cxx $cxxflags $extra -MD -MF $out.d -c $in -o $out\n  depfile = $out.d\n  deps = gcc\n  description = CXX $out")
    L.append("rule ar\n  command = rm -f $out && ar rcs $out $in\n  description = AR $out")
    L.append("rule link\n  command = $cxx $ldsan $in -o $out -L%s/lib -Wl,-rpath,%s/lib -ldbus-daemon-internal -ldbus-internal %s -lexpat -lpthread -lrt\n  description = LINK $out" % (SAN, SAN, dbus1_static))
    L.append("build %s: ar %s" % (dbus1_static, " ".join(dbus1_objs)))
    L.append("rule cstub\n  command = cc -O1 -g $in -o $out\n  description = CC $out")
    eng_objs = []
    srcs = list(ENGINE_SRCS) + [s for s in OPTIONAL_ENGINE_SRCS if os.path.exists(os.path.join(VERIF, "engine", s))]
    for s in srcs:
        o = os.path.join(obj, "engine_" + s.replace(".cc", ".o"))
        L.append("build %s: cc %s\n  extra = -fsanitize-coverage=inline-8bit-counters,indirect-calls,pc-table" % (o, os.path.join(VERIF, "engine", s)))
        eng_objs.append(o)
    arch = os.path.join(obj, "libvpengine.a")
    L.append("build %s: ar %s" % (arch, " ".join(eng_objs)))
    bins = []
    # the activation helper's validation chain, compiled as its test variant (configuration from TEST_LAUNCH_HELPER_CONFIG, no setuid checks)
    helper_o = os.path.join(obj, "repo_activation_helper_test.o")
    L.append("rule crepo\n  command = clang %s -DDBUS_COMPILATION -DHAVE_CONFIG_H -D_GNU_SOURCE $extra %s -MD -MF $out.d -c $in -o $out\n  depfile = $out.d\n  deps = gcc\n  description = CC $out" % (SAN_CFLAGS, inc))
    L.append("build %s: crepo %s\n  extra = -DACTIVATION_LAUNCHER_TEST" % (helper_o, os.path.join(REPO, "bus", "activation-helper.c")))
    L.append("rule linkhelper\n  command = $cxx $ldsan $in -o $out %s/lib/liblaunch-helper-internal.a %s/lib/libdbus-internal.a %s -lexpat -lpthread -lrt\n  description = LINK $out" % (SAN, SAN, dbus1_static))
    for name, (fn, extra, fuzz) in target_table().items():
        o = os.path.join(obj, name + ".o")
        L.append("build %s: cc %s\n  extra = %s %s" % (o, os.path.join(VERIF, "targets", fn), extra, "-fsanitize=fuzzer-no-link"))
        b = os.path.join(binp, name)
        if name.startswith("c19_helper"):
            L.append("build %s: linkhelper %s %s %s | %s %s/lib/liblaunch-helper-internal.a\n  ldsan = %s" % (b, o, helper_o, arch, " ".join(libs), SAN, "-fsanitize=fuzzer,address,undefined" if fuzz else "-fsanitize=address,undefined"))
        else:
            L.append("build %s: link %s %s | %s\n  ldsan = %s" % (b, o, arch, " ".join(libs), "-fsanitize=fuzzer,address,undefined" if fuzz else "-fsanitize=address,undefined"))
        bins.append(b)
    tooldir = os.path.join(VERIF, "tools")
    if os.path.isdir(tooldir):
        for fn in sorted(os.listdir(tooldir)):
            if fn.endswith(".cc"):
                o = os.path.join(obj, "tool_" + fn[:-3] + ".o")
                L.append("build %s: cc %s\n  extra = -fsanitize-coverage=inline-8bit-counters,indirect-calls,pc-table" % (o, os.path.join(tooldir, fn)))
                b = os.path.join(binp, fn[:-3])
                L.append("build %s: link %s %s | %s\n  ldsan = -fsanitize=address,undefined" % (b, o, arch, " ".join(libs)))
                bins.append(b)
    stubdir = os.path.join(VERIF, "stubs")
    if os.path.isdir(stubdir):
        for fn in sorted(os.listdir(stubdir)):
            if fn.endswith(".c"):
                b = os.path.join(binp, fn[:-2])
                L.append("build %s: cstub %s" % (b, os.path.join(stubdir, fn)))
                bins.append(b)
    L.append("build all: phony %s" % " ".join(bins))
    L.append("default all")
    path = os.path.join(BUILD, "verif.ninja")
    txt = "\n".join(L) + "\n"
    if not os.path.exists(path) or open(path).read() != txt:
        open(path, "w").write(txt)
    return path


def build_all(targets=None):
    """Rebuild /repo (sanitizer config, hooks on) and the harness. Serialised by a lock."""
    t0 = time.time()
    with Lock(os.path.join(BUILD, ".lock")):
        build_san()
        nj = write_ninja()
        cmd = ["ninja", "-f", nj, "-C", BUILD]
        if targets:
            cmd += [os.path.join(BUILD, "bin", t) for t in targets]
        rc, out = run(cmd)
        if rc != 0:
            sys.stderr.write(out[-8000:])
            log("HARNESS BUILD FAILED")
            raise SystemExit(2)
    log("build ok (%.1fs)" % (time.time() - t0))


def binpath(name):
    return os.path.join(BUILD, "bin", name)
