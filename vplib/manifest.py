#!/usr/bin/env python3
"""Regenerates /verif/MANIFEST.json from vplib/props.py (claimed checks) and the list of
properties not (yet) claimed."""
import json, os, sys
HERE = os.path.dirname(os.path.dirname(os.path.abspath(__file__)))
sys.path.insert(0, HERE)
from vplib.props import PROPS
from vplib import build

ALL = ["C%02d" % i for i in range(1, 21)]
NOT_YET = "check not built yet in this framework (see DESIGN.md section 4 for the planned generated-input check); not claimed"

def main():
    hooks_file = os.path.join(HERE, "hooks.json")
    hooks = json.load(open(hooks_file)) if os.path.exists(hooks_file) else {"source_commits": []}
    checks = []
    for pid in ALL:
        if pid not in PROPS:
            continue
        c = PROPS[pid]
        checks.append({
            "property_id": pid,
            "quick_cmd": "./check %s --tier quick" % pid,
            "thorough_cmd": "./check %s --tier thorough" % pid,
            "evidence_file": "evidence/%s.json" % pid,
            "replay_cmd_template": "./check %s --replay {path}" % pid,
            "engine": c.get("engine", "libfuzzer-structured"),
            "level_claimed": {"category": c["level"], "text": c["level_text"], "design_ref": "DESIGN.md section 4, " + pid},
            "level_note": c["level_note"],
            "technique": c["technique"],
        })
    na = [{"property_id": p, "reason": PROPS_NA.get(p, NOT_YET)} for p in ALL if p not in PROPS]
    doc = {
        "version": 1,
        "setup_cmd": "./setup.sh",
        "hooks": {
            "guard": build.GUARD,
            "enable": "checks configure an out-of-tree CMake build of /repo in /verif/build/san with clang and CFLAGS containing -D%s (plus ASan/UBSan/fuzzer-no-link); see vplib/build.py" % build.GUARD,
            "baseline_off_cmd": "./baseline_off.sh",
            "source_commits": hooks.get("source_commits", []),
            "add_only": True,
        },
        "engines": [
            {"name": "libfuzzer-structured", "path": "targets/ + engine/", "serves_properties": [p for p in ALL if p in PROPS],
             "kind_free_text": "libFuzzer structure-aware targets (bytes -> FuzzedDataProvider -> structured case) with the oracle inside the target; exhaustive enumeration front ends for finite sub-spaces; driver ./check runs W independent workers, replays crash artifacts 3x, merges statistics into evidence"},
        ],
        "checks": checks,
        "not_applicable": na,
        "notes": "Technique family: property-based testing / fuzzing. Known findings: known-findings.json. Seeded sensitivity changes: seeded/. See DESIGN.md.",
    }
    json.dump(doc, open(os.path.join(HERE, "MANIFEST.json"), "w"), indent=1)

PROPS_NA = {}

if __name__ == "__main__":
    main()
