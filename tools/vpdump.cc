// dev tool: vpdump <file|-x hex> [nfds]  -- oracle verdict vs libdbus verdict for a byte string
#include "dbusx.h"
#include "wire.h"
#include "libwalk.h"
#include <cstdio>
#include <cstdlib>
#include <cstring>
using namespace vp;
int main(int argc, char** argv) {
  std::string b;
  int nfds = 0;
  if (argc >= 3 && !strcmp(argv[1], "-x")) { const char* h = argv[2]; for (size_t i = 0; h[i] && h[i + 1]; i += 2) { unsigned v; sscanf(h + i, "%2x", &v); b += (char)v; } if (argc > 3) nfds = atoi(argv[3]); }
  else if (argc >= 2) { FILE* f = fopen(argv[1], "rb"); char buf[4096]; size_t n; while ((n = fread(buf, 1, sizeof buf, f)) > 0) b.append(buf, n); fclose(f); if (argc > 2) nfds = atoi(argv[2]); }
  StreamResult R = decode_stream((const uint8_t*)b.data(), b.size(), nfds);
  printf("oracle: frames=%zu final=%s reason='%s' unspec=%d consumed=%zu need=%zu\n", R.frames.size(), R.final == St::End ? "End" : R.final == St::NeedMore ? "NeedMore" : "Corrupt", R.reason.c_str(), R.tail_unspec, R.consumed, R.need);
  for (auto& f : R.frames) printf("  frame off=%zu len=%zu %s\n", f.off, f.len, f.msg.show().c_str());
  fflush(stdout);
  if (getenv("VP_ORACLE_ONLY")) return 0;
  char* p = (char*)aligned_alloc(8, (b.size() + 8) & ~7ul); memcpy(p, b.data(), b.size());
  DBusError e; dbus_error_init(&e);
  DBusMessage* m = dbus_message_demarshal(p, (int)b.size(), &e);
  printf("libdbus demarshal: %s %s\n", m ? "message" : "NULL", e.message ? e.message : "");
  if (m) { Msg lm; std::string why; if (lib_to_msg(m, lm, &why)) printf("  lib: %s\n", lm.show().c_str()); else printf("  walk failed: %s\n", why.c_str()); dbus_message_unref(m); }
  return 0;
}
