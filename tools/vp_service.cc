// Scripted service process for C19: started by the bus under test (or by the
// launch helper), it logs its start and follows a script written by the harness.
//   vp_service <name>            script = $VP_STUB_DIR/<name>.script
// Script commands (one per line):
//   exit N | kill | connect | wait FILE | own BUSNAME FLAGS | serve | argv
// Logs: $VP_STUB_DIR/starts.log ("start <name> <pid>"), recv.<name>.log
// ("<type> <sender> <serial> <member> <token>"), argv.<name>.log.
#include <cstdio>
#include <cstdlib>
#include <cstring>
#include <string>
#include <vector>
#include <fstream>
#include <sstream>
#include <unistd.h>
#include <fcntl.h>
#include <signal.h>
#include <poll.h>
#include <sys/socket.h>
#include <sys/stat.h>
#include <sys/un.h>
#include "wire.h"

using namespace vp;

static std::string g_dir, g_name;
static int g_fd = -1;
static std::string g_in;
static uint32_t g_serial = 1;
static std::string g_unique;

static void append_line(const std::string& file, const std::string& line) {
  int fd = open((g_dir + "/" + file).c_str(), O_WRONLY | O_CREAT | O_APPEND | O_CLOEXEC, 0644);
  if (fd < 0) return;
  std::string l = line + "\n";
  (void)!write(fd, l.data(), l.size());
  close(fd);
}

static bool send_all(const std::string& b) {
  size_t off = 0;
  while (off < b.size()) { ssize_t n = send(g_fd, b.data() + off, b.size() - off, MSG_NOSIGNAL); if (n <= 0) { if (n < 0 && errno == EINTR) continue; return false; } off += (size_t)n; }
  return true;
}
// read more bytes (blocking up to ms); false on EOF/error
static bool read_more(int ms) {
  struct pollfd p = {g_fd, POLLIN, 0};
  int r = poll(&p, 1, ms);
  if (r <= 0) return r == 0;
  char buf[65536]; ssize_t n = recv(g_fd, buf, sizeof buf, 0);
  if (n <= 0) return false;
  g_in.append(buf, n);
  return true;
}
static bool next_frame(Msg* m, int ms) {
  for (;;) {
    if (g_in.size() >= 16) {
      bool bad; size_t total = declared_length((const uint8_t*)g_in.data(), g_in.size(), &bad);
      if (bad) _exit(8);
      if (total && total <= g_in.size()) {
        std::string why; Verdict v = decode_frame((const uint8_t*)g_in.data(), total, -1, m, &why);
        g_in.erase(0, total);
        if (v == Verdict::Invalid) _exit(8);
        return true;
      }
    }
    size_t before = g_in.size();
    if (!read_more(ms)) _exit(0);            // bus went away
    if (g_in.size() == before) return false;  // timeout
  }
}
static Msg call_bus(const std::string& member, const std::vector<Value>& args) {
  Msg m; m.type = T_CALL; m.serial = g_serial++; m.set_str(F_PATH, 'o', "/org/freedesktop/DBus"); m.set_str(F_DESTINATION, 's', "org.freedesktop.DBus"); m.set_str(F_INTERFACE, 's', "org.freedesktop.DBus"); m.set_str(F_MEMBER, 's', member);
  m.body = args; m.fix_signature();
  if (!send_all(encode_msg(m))) _exit(0);
  return m;
}
static void log_msg(const Msg& r) {
  std::string tok = r.body.size() >= 1 && r.body[0].t == 's' ? r.body[0].s : "-";
  append_line("recv." + g_name + ".log", std::to_string(r.type) + " " + r.fstr(F_SENDER) + " " + std::to_string(r.serial) + " " + (r.fstr(F_MEMBER).empty() ? "-" : r.fstr(F_MEMBER)) + " " + tok);
}
static std::vector<Msg> g_backlog;   // frames that arrived while waiting for a driver reply
static Msg wait_reply(uint32_t serial) {
  for (;;) { Msg r; if (!next_frame(&r, 60000)) _exit(9); if ((r.type == T_RETURN || r.type == T_ERROR) && r.fu32(F_REPLY_SERIAL) == serial && r.fstr(F_SENDER) == "org.freedesktop.DBus") return r; g_backlog.push_back(r); }
}
static void handle(const Msg& r) {
  if (r.fstr(F_SENDER) == "org.freedesktop.DBus") return;   // NameAcquired etc.
  log_msg(r);
  if (r.type == T_CALL && r.fstr(F_MEMBER) == "Quit") _exit(0);
  if (r.type == T_CALL && !(r.flags & 1)) {
    Msg a; a.type = T_RETURN; a.flags = 1; a.serial = g_serial++; a.set_str(F_DESTINATION, 's', r.fstr(F_SENDER)); a.set_u32(F_REPLY_SERIAL, r.serial); a.body = r.body; a.fix_signature();
    if (!send_all(encode_msg(a))) _exit(0);
  }
}

int main(int argc, char** argv) {
  alarm(120);
  const char* d = getenv("VP_STUB_DIR");
  if (!d || argc < 2) return 7;
  g_dir = d; g_name = argv[1];
  append_line("starts.log", "start " + g_name + " " + std::to_string((int)getpid()));
  std::ifstream sc(g_dir + "/" + g_name + ".script");
  std::string line;
  while (std::getline(sc, line)) {
    std::istringstream is(line); std::string cmd; is >> cmd;
    if (cmd == "exit") { int n = 0; is >> n; _exit(n); }
    else if (cmd == "kill") { kill(getpid(), SIGKILL); }
    else if (cmd == "argv") { std::string s; for (int i = 0; i < argc; i++) { s += "["; s += argv[i]; s += "]"; } append_line("argv." + g_name + ".log", s); }
    else if (cmd == "connect") {
      const char* addr = getenv("DBUS_STARTER_ADDRESS");
      if (!addr) _exit(6);
      std::string a = addr; size_t p = a.find("abstract="); if (p == std::string::npos) _exit(6);
      std::string nm = a.substr(p + 9); size_t c = nm.find(','); if (c != std::string::npos) nm.resize(c);
      g_fd = socket(AF_UNIX, SOCK_STREAM | SOCK_CLOEXEC, 0);
      struct sockaddr_un sa; memset(&sa, 0, sizeof sa); sa.sun_family = AF_UNIX; memcpy(sa.sun_path + 1, nm.data(), nm.size());
      if (connect(g_fd, (struct sockaddr*)&sa, (socklen_t)(offsetof(struct sockaddr_un, sun_path) + 1 + nm.size())) < 0) _exit(6);
      char uid[32]; snprintf(uid, sizeof uid, "%u", (unsigned)getuid()); std::string hex; for (char* q = uid; *q; q++) { char h[4]; snprintf(h, sizeof h, "%02x", (unsigned char)*q); hex += h; }
      if (!send_all(std::string(1, '\0') + "AUTH EXTERNAL " + hex + "\r\n")) _exit(6);
      std::string resp; while (resp.find("\r\n") == std::string::npos) { g_in.clear(); if (!read_more(60000)) _exit(6); resp += g_in; } g_in.clear();
      if (resp.rfind("OK ", 0) != 0) _exit(6);
      if (!send_all("BEGIN\r\n")) _exit(6);
      Msg h = call_bus("Hello", {}); Msg r = wait_reply(h.serial);
      if (r.type != T_RETURN || r.body.empty()) _exit(6);
      g_unique = r.body[0].s;
      append_line("starts.log", "connected " + g_name + " " + g_unique);
    }
    else if (cmd == "wait") {
      std::string f; is >> f; std::string path = g_dir + "/" + f;
      for (int i = 0; i < 60000; i++) {
        struct stat st; if (stat(path.c_str(), &st) == 0) break;
        if (g_fd >= 0) { struct pollfd p = {g_fd, POLLIN, 0}; if (poll(&p, 1, 2) > 0) { if (!read_more(0)) _exit(0); } } else usleep(2000);
      }
    }
    else if (cmd == "own") {
      std::string bn; unsigned fl = 0; is >> bn >> fl;
      Msg c = call_bus("RequestName", {Value::str('s', bn), Value::basic('u', fl)}); Msg r = wait_reply(c.serial);
      append_line("starts.log", "own " + g_name + " " + bn + " -> " + (r.type == T_RETURN && !r.body.empty() ? std::to_string((unsigned)r.body[0].u) : r.fstr(F_ERROR_NAME)));
    }
    else if (cmd == "serve") {
      for (auto& b : g_backlog) handle(b);
      g_backlog.clear();
      for (;;) { Msg r; if (!next_frame(&r, 100000)) _exit(0); handle(r); }
    }
  }
  return 0;
}
