#!/bin/bash
# dev/confirm_seed.sh <ID> [suffix]: confirm a sub-agent's seeded change in its own scratch worktree /tmp/seed-<ID><suffix>:
# patched: builds, ctest passes, demo fails; unpatched: demo passes.  On success copies _seed to /verif/seeded/<ID><suffix>.
ID=$1; SFX=$2; W=/tmp/seed-$ID$SFX; S=$W/_seed; LOG=/tmp/confirm-$ID$SFX.log
exec > $LOG 2>&1
cd $W || exit 2
git diff > /tmp/confirm-$ID$SFX.cur.diff
[ -s /tmp/confirm-$ID$SFX.cur.diff ] || git apply $S/patch.diff || { echo "CANNOT APPLY"; exit 2; }
timeout 1200 cmake --build $W/_build -j8 2>&1 | tail -2
timeout 300 bash $S/run_demo.sh > /tmp/confirm-$ID$SFX.demo1 2>&1; D1=$?
# the pinned suite = the configuration of /repo/_build (embedded + modular tests, glib): 36 ctest programs
cmake -G Ninja -S $W -B $W/_build36 -DDBUS_BUILD_TESTS=ON -DDBUS_ENABLE_EMBEDDED_TESTS=ON -DDBUS_ENABLE_MODULAR_TESTS=ON -DDBUS_WITH_GLIB=ON -DCMAKE_BUILD_TYPE=RelWithDebInfo -DDBUS_ENABLE_VERBOSE_MODE=ON > /dev/null 2>&1
timeout 1500 cmake --build $W/_build36 -j8 2>&1 | tail -1
timeout 1500 ctest --test-dir $W/_build36 -j6 --timeout 900 2>&1 | tail -4 > /tmp/confirm-$ID$SFX.ctest; grep -q "100% tests passed, 0 tests failed out of 36" /tmp/confirm-$ID$SFX.ctest; T=$?
git diff > /tmp/confirm-$ID$SFX.applied.diff; git apply -R /tmp/confirm-$ID$SFX.applied.diff; timeout 1200 cmake --build $W/_build -j8 2>&1 | tail -2
timeout 300 bash $S/run_demo.sh > /tmp/confirm-$ID$SFX.demo0 2>&1; D0=$?
git apply /tmp/confirm-$ID$SFX.applied.diff
echo "RESULT id=$ID$SFX demo_with_patch_rc=$D1 ctest_with_patch_ok=$((1-T)) demo_without_patch_rc=$D0"
if [ $D1 -ne 0 ] && [ $T -eq 0 ] && [ $D0 -eq 0 ]; then
  mkdir -p /verif/seeded/$ID$SFX && cp $S/patch.diff $S/notes.txt /verif/seeded/$ID$SFX/ && (cd $S && for f in *; do case $f in *.bin|*.o|PROPERTY.txt) ;; *) [ -f "$f" ] && [ $(stat -c %s "$f") -lt 200000 ] && cp "$f" /verif/seeded/$ID$SFX/ ;; esac; done)
  echo CONFIRMED
else echo NOT-CONFIRMED; fi
