#!/bin/bash
# dev helper: dev/fz.sh <target> <runs> [seed] [extra libFuzzer args]  -- single worker, prints crash summary + classes
T=$1; RUNS=${2:-20000}; SEED=${3:-1}; shift 3 2>/dev/null
cd /verif && python3 -c "
import sys; sys.path.insert(0,'/verif')
from vplib import build
build.build_all()" 2>&1 | tail -20
D=/tmp/fz.$T; rm -rf $D; mkdir -p $D/corp
[ -d /verif/corpus/$T/seed ] && cp /verif/corpus/$T/seed/* $D/corp/ 2>/dev/null
cd $D
KF=$(python3 -c "
import json
d=json.load(open('/verif/known-findings.json'))
print(','.join(e['id'] for e in d['findings'] if e['status']=='open'))")
VP_KF=$KF VP_STATS_DIR=$D VP_VERIF=/verif VP_SAN=/verif/build/san VP_BIN=/verif/build/bin ASAN_OPTIONS=detect_leaks=1:allocator_may_return_null=1:detect_odr_violation=0 UBSAN_OPTIONS=print_stacktrace=1:halt_on_error=1 timeout 3000 /verif/build/bin/$T -runs=$RUNS -max_len=4096 -len_control=0 -seed=$SEED -verbosity=0 -print_final_stats=1 -timeout=60 -detect_leaks=${DETECT_LEAKS:-1} "$@" corp > log 2>&1
grep -E "stat::number_of_executed|average_exec|peak_rss" log
grep -A25 "==VP== ORACLE VIOLATION" log | head -60
grep -E "ERROR: AddressSanitizer|runtime error|assertion failed|should not have been reached|ERROR: LeakSanitizer|ERROR: libFuzzer" log | head -5
grep -E "^    #[0-9]+ .* in .* /(repo|verif)/" log | head -14
ls $D | grep -E "^(crash|leak|timeout|oom)-" | head
python3 - <<PY
import json,glob
for f in glob.glob('$D/stats.*.json'):
    d=json.load(open(f)); print('evals',d['evaluations'],'distinct-nontrivial',d['distinct_nontrivial'],'kf',d['kf_hits'])
    for k,v in sorted(d['classes'].items()): print('  %-60s %d'%(k,v))
PY
