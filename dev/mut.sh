#!/bin/bash
# dev/mut.sh <patch-file> <PROP> [tier]  -- sensitivity: apply a patch to a scratch worktree of /repo HEAD,
# run the property's check against it, report CAUGHT / MISSED, clean up.
P=$(readlink -f "$1"); PROP=$2; TIER=${3:-quick}
D=$(mktemp -d /tmp/vp-mut.XXXXXX)
git -C /repo worktree add --detach -q $D/src HEAD || exit 2
if ! git -C $D/src apply "$P"; then echo "PATCH DOES NOT APPLY"; git -C /repo worktree remove --force $D/src; rm -rf $D; exit 2; fi
cd /verif
VP_REPO=$D/src VP_BUILD=$D/build VERIF_SEED=${VERIF_SEED:-1} timeout 3000 ./check $PROP --tier $TIER > $D/out.txt 2> $D/err.txt
RC=$?
if grep -q "^VIOLATION property=$PROP" $D/out.txt; then echo "CAUGHT rc=$RC $(basename $P) by $PROP"; grep -m1 -A3 "ORACLE VIOLATION\|ERROR: AddressSanitizer\|runtime error\|assertion failed" $D/err.txt | cut -c1-300 | head -5
else echo "MISSED rc=$RC $(basename $P) by $PROP"; tail -3 $D/err.txt | cut -c1-300; fi
git -C /repo worktree remove --force $D/src; rm -rf $D
git -C /repo worktree prune
