#!/usr/bin/env python3
"""dev/mkmut.py <name> <file-relative-to-repo> <old> <new> [occurrence]  -> dev/mut/<name>.diff (unified diff against /repo HEAD working tree)"""
import sys, difflib, os
name, rel, old, new = sys.argv[1:5]
occ = int(sys.argv[5]) if len(sys.argv) > 5 else 1
src = open(os.path.join('/repo', rel)).read()
if src.count(old) < occ:
    sys.exit("pattern found %d times" % src.count(old))
idx = -1
for _ in range(occ):
    idx = src.index(old, idx + 1)
dst = src[:idx] + new + src[idx + len(old):]
d = difflib.unified_diff(src.splitlines(True), dst.splitlines(True), 'a/' + rel, 'b/' + rel)
os.makedirs('/verif/dev/mut', exist_ok=True)
open('/verif/dev/mut/%s.diff' % name, 'w').write(''.join(d))
print("wrote dev/mut/%s.diff" % name)
