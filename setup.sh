#!/bin/sh
# Run once after a fresh restore, offline: configure + build the sanitizer build of /repo
# and every harness binary from files on disk.
set -e
cd "$(dirname "$0")"
python3 - <<'PY'
import sys
sys.path.insert(0, '.')
from vplib import build
build.build_all()
PY
python3 vplib/manifest.py
echo "setup ok"
