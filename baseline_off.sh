#!/bin/sh
# Runs the repository's pinned test suite with the hook guard OFF (the guard is
# only ever defined by /verif's own sanitizer build, never by /repo/_build).
set -e
cmake -G Ninja -S /repo -B /repo/_build >/dev/null
cmake --build /repo/_build
ctest --test-dir /repo/_build -j8 --timeout 900 --output-junit /repo/_build/baseline_off.junit.xml
