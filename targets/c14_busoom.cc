// C14 (bus part) — out-of-memory at any single allocation while the bus handles one
// request: all of its effects or none plus a NoMemory error; state unchanged
// otherwise; nothing leaked; the retry succeeds.
// One fuzz case = (prior history, request R).  The target replays the history on a
// fresh in-process bus once per k = 0,1,2,... and makes the k-th allocation after R
// was written fail (libdbus' built-in countdown), until a run in which the
// countdown never fired.  After every injected run the observable state is
// compared with the reference model: frames at every client, registry queries,
// probe signals that exercise every match rule, and disconnects that reveal
// pending-reply slots.  With VP_PAIRS (hook H3) a second failure follows the first
// after a generated gap.
#include "dbusx.h"
#include "gen.h"
#include "bushelp.h"
#include "stats.h"
#include <unistd.h>
#include <functional>
#include <map>

extern "C" {
void _dbus_set_fail_alloc_counter(int until_next_fail);
int _dbus_get_fail_alloc_counter(void);
#ifdef DBUS_VERIF_HOOKS
void _dbus_verif_set_second_fail_gap(int gap);
int _dbus_verif_get_second_fail_gap(void);
#endif
}

using namespace vp;

static const char* const kNames[] = {"com.vp.A", "com.vp.B"};
static const char* const kRules[] = {"type='signal',interface='com.vp.I1'", "member='M1'", "arg0='x'", "type='signal',interface='com.vp.I2',member='M2'", "path_namespace='/p'", "sender='com.vp.A'"};
static const char* const kNoMem = "org.freedesktop.DBus.Error.NoMemory";

struct Op {
  int c = -1;
  std::string desc;
  bool is_hello = false;
  std::function<Msg(Hist&)> make;                                   // the request (serial assigned by the caller)
  std::function<void(BusModel&, const Msg&, Out&)> apply;           // full effect on the model + expectations
};

static Msg driver_call(const std::string& member, const std::vector<Value>& args) {
  Msg m; m.type = T_CALL; m.set_str(F_PATH, 'o', BUS_PATH); m.set_str(F_DESTINATION, 's', BUS_NAME); m.set_str(F_INTERFACE, 's', BUS_IFACE); m.set_str(F_MEMBER, 's', member); m.body = args; m.fix_signature(); return m;
}

// added: (client, rule index) of the AddMatch operations generated so far, so that RemoveMatch usually names a rule that exists
static Op gen_op(FDP& f, int nreg, int unreg_client, bool allow_hello, std::vector<std::pair<int, int>>* added) {
  Op op;
  int k = (int)pick(f, 12);
  int c = (int)pick(f, nreg);
  op.c = c;
  if (k <= 2) {
    std::string name = kNames[pick(f, 2)]; uint32_t flags = (uint32_t)pick(f, 8);
    op.desc = "client" + std::to_string(c) + " RequestName(" + name + "," + std::to_string(flags) + ")";
    op.make = [name, flags](Hist&) { return driver_call("RequestName", {Value::str('s', name), Value::basic('u', flags)}); };
    op.apply = [c, name, flags](BusModel& m, const Msg& r, Out& o) { std::string e; m.request_name(c, name, flags, r.serial, o, &e); };
  } else if (k == 3) {
    std::string name = kNames[pick(f, 2)];
    op.desc = "client" + std::to_string(c) + " ReleaseName(" + name + ")";
    op.make = [name](Hist&) { return driver_call("ReleaseName", {Value::str('s', name)}); };
    op.apply = [c, name](BusModel& m, const Msg& r, Out& o) { std::string e; m.release_name(c, name, r.serial, o, &e); };
  } else if (k <= 5) {
    int ri = (int)pick(f, 6); std::string rule = kRules[ri];
    if (added) added->push_back({c, ri});
    op.desc = "client" + std::to_string(c) + " AddMatch(" + rule + ")";
    op.make = [rule](Hist&) { return driver_call("AddMatch", {Value::str('s', rule)}); };
    op.apply = [c, rule](BusModel& m, const Msg& r, Out& o) { MatchRule mr; std::string why; parse_match_rule(rule, &mr, &why); m.add_match(c, mr); m.emit_to(c, exp_reply(m.conns[c].unique, r.serial, {}), o); };
  } else if (k == 6) {
    std::string rule = kRules[pick(f, 6)];
    if (added && !added->empty() && !rare(f, 4)) { auto a = (*added)[pick(f, added->size())]; c = a.first; op.c = c; rule = kRules[a.second]; }
    op.desc = "client" + std::to_string(c) + " RemoveMatch(" + rule + ")";
    op.make = [rule](Hist&) { return driver_call("RemoveMatch", {Value::str('s', rule)}); };
    op.apply = [c, rule](BusModel& m, const Msg& r, Out& o) { MatchRule mr; std::string why; parse_match_rule(rule, &mr, &why);
      if (m.remove_match(c, mr)) m.emit_to(c, exp_reply(m.conns[c].unique, r.serial, {}), o); else m.emit_to(c, exp_error(m.conns[c].unique, r.serial, "org.freedesktop.DBus.Error.MatchRuleNotFound"), o); };
  } else if (k <= 8) {
    // method call to a name or a connection: creates a reply slot when deliverable
    int t = (int)pick(f, nreg); bool by_name = f.ConsumeBool(); std::string name = kNames[pick(f, 2)]; bool noreply = rare(f, 5);
    op.desc = "client" + std::to_string(c) + " calls " + (by_name ? name : "client" + std::to_string(t)) + (noreply ? " (NO_REPLY)" : "");
    op.make = [=](Hist& h) { Msg m; m.type = T_CALL; m.flags = noreply ? 1 : 0; m.set_str(F_DESTINATION, 's', by_name ? name : h.uniq(t)); m.set_str(F_PATH, 'o', "/p/q"); m.set_str(F_INTERFACE, 's', "com.vp.I1"); m.set_str(F_MEMBER, 's', "M1"); m.body.push_back(Value::str('s', "x")); m.fix_signature(); return m; };
    op.apply = [c](BusModel& m, const Msg& r, Out& o) { m.route(c, r, o); };
  } else if (k == 9) {
    // reply to the oldest slot in which c is the callee (else an unsolicited reply)
    bool err = f.ConsumeBool();
    op.desc = "client" + std::to_string(c) + " replies to its oldest pending call" + (err ? " (error)" : "");
    op.make = [=](Hist& h) { Msg m; m.type = err ? T_ERROR : T_RETURN; if (err) m.set_str(F_ERROR_NAME, 's', "com.vp.Failed");
      std::string to = h.uniq((c + 1) % 3); uint32_t rs = 77;
      for (auto& p : h.model.pending) if (p.callee == c) { to = h.uniq(p.caller); rs = p.serial; break; }
      m.set_str(F_DESTINATION, 's', to); m.set_u32(F_REPLY_SERIAL, rs); m.body.push_back(Value::str('s', "ans")); m.fix_signature(); return m; };
    op.apply = [c](BusModel& m, const Msg& r, Out& o) { m.route(c, r, o); };
  } else if (k == 10 || !allow_hello) {
    int v = (int)pick(f, 4); bool uni = rare(f, 4); int t = (int)pick(f, nreg);
    op.desc = "client" + std::to_string(c) + " emits signal variant " + std::to_string(v) + (uni ? " to client" + std::to_string(t) : "");
    op.make = [=](Hist& h) { Msg m; m.type = T_SIGNAL; m.set_str(F_PATH, 'o', v & 1 ? "/p/q" : "/other"); m.set_str(F_INTERFACE, 's', v & 2 ? "com.vp.I1" : "com.vp.I2"); m.set_str(F_MEMBER, 's', v & 1 ? "M1" : "M2");
      if (uni) m.set_str(F_DESTINATION, 's', h.uniq(t)); m.body.push_back(Value::str('s', v == 3 ? "x" : "y")); m.fix_signature(); return m; };
    op.apply = [c](BusModel& m, const Msg& r, Out& o) { m.route(c, r, o); };
  } else {
    op.c = unreg_client; op.is_hello = true;
    op.desc = "client" + std::to_string(unreg_client) + " Hello";
    op.make = [](Hist&) { return driver_call("Hello", {}); };
  }
  return op;
}

// Read-only driver queries as the injected request (phase VP_QUERIES=1): under a failing allocation the caller gets the
// modelled answer or NoMemory, nothing else changes, nothing leaks, and the retry is answered as modelled.
static Op gen_query(FDP& f, int nreg) {
  Op op; int c = (int)pick(f, nreg); op.c = c;
  int kind = (int)pick(f, 14); int nk = (int)pick(f, 5); int t = (int)pick(f, nreg);
  static const char* const kMember[] = {"GetNameOwner", "NameHasOwner", "ListQueuedOwners", "GetConnectionUnixUser", "GetConnectionCredentials", "GetConnectionUnixProcessID", "ListNames", "ListActivatableNames", "GetId", "Introspect", "GetAll", "ReloadConfig", "NoSuchMethod", "GetNameOwner"};
  std::string member = kMember[kind];
  bool takes_name = kind <= 5;
  std::string fixed = nk == 0 ? kNames[0] : nk == 1 ? kNames[1] : nk == 2 ? BUS_NAME : nk == 3 ? "" : "com.vp.Nobody";
  op.desc = "client" + std::to_string(c) + " " + member + (kind == 13 ? "(u 7)" : takes_name ? "(" + (nk == 3 ? "client" + std::to_string(t) : fixed) + ")" : "()");
  op.make = [=](Hist& h) {
    if (kind == 9) { Msg m = driver_call("Introspect", {}); m.set_str(F_INTERFACE, 's', "org.freedesktop.DBus.Introspectable"); if (nk & 1) m.set_str(F_PATH, 'o', "/"); return m; }
    if (kind == 10) { Msg m = driver_call("GetAll", {Value::str('s', BUS_IFACE)}); m.set_str(F_INTERFACE, 's', "org.freedesktop.DBus.Properties"); return m; }
    if (kind == 13) return driver_call(member, {Value::basic('u', 7)});   // wrong argument type
    if (!takes_name) return driver_call(member, {});
    return driver_call(member, {Value::str('s', nk == 3 ? h.uniq(t) : fixed)});
  };
  op.apply = [=](BusModel& m, const Msg& r, Out& o) {
    std::string me = m.conns[c].unique;
    auto any = [&]() { Exp e = exp_reply(me, r.serial, {}); e.any_body = true; m.emit_to(c, e, o); };
    if (kind == 11) { m.emit_to(c, exp_reply(me, r.serial, {}), o); return; }
    if (kind == 12) { m.emit_to(c, exp_error(me, r.serial, "org.freedesktop.DBus.Error.UnknownMethod"), o); return; }
    if (kind == 13) { m.emit_to(c, exp_error(me, r.serial, "org.freedesktop.DBus.Error.InvalidArgs"), o); return; }   // the configuration file is unchanged: reloading it changes nothing
    if (!takes_name) { any(); return; }
    std::string name = r.body.empty() ? "" : r.body[0].s;
    std::string own = name == BUS_NAME ? std::string(BUS_NAME) : m.owner_unique(name);
    if (kind == 1) { m.emit_to(c, exp_reply(me, r.serial, {Value::basic('b', own.empty() ? 0 : 1)}), o); return; }
    if (own.empty()) { m.emit_to(c, exp_error(me, r.serial, "org.freedesktop.DBus.Error.NameHasNoOwner"), o); return; }
    if (kind == 0) m.emit_to(c, exp_reply(me, r.serial, {Value::str('s', own)}), o);
    else if (kind == 2) { Value a = Value::array("s"); std::vector<std::string> wq = m.queued_owners(name); if (name == BUS_NAME) wq = {BUS_NAME}; for (auto& x : wq) a.kids.push_back(Value::str('s', x)); m.emit_to(c, exp_reply(me, r.serial, {a}), o); }
    else if (kind == 3) m.emit_to(c, exp_reply(me, r.serial, {Value::basic('u', (uint64_t)getuid())}), o);
    else if (kind == 5) m.emit_to(c, exp_reply(me, r.serial, {Value::basic('u', (uint64_t)getpid())}), o);
    else any();
  };
  return op;
}

struct Plan { int nreg; std::vector<Op> prior; Op R; int gap; };

// returns: 0 = countdown never fired (enumeration complete), 1 = fired and everything checked
static int run_once(const Plan& pl, int k, bool pairs, bool count, std::pair<long, int>* leaks, std::string* keyout, std::string* outcome) {
  Hist h("C14");
  BusLimits lim;
  h.start(make_config("session", "", lim));
  for (int i = 0; i < pl.nreg; i++) h.add_client();
  int unreg = h.add_client(false);
  int obs = h.add_client();
  auto do_op = [&](const Op& op) {
    if (op.is_hello) { if (h.uniq(op.c).empty()) { h.hello(op.c); h.model.conns[op.c].registered = true; } return; }
    Msg m = op.make(h); m.serial = h.bus.client(op.c).serial++;
    h.log.push_back(op.desc);
    h.bus.send_bytes(op.c, encode_msg(m));
    Out o; op.apply(h.model, m, o);
    h.bus.pump();
    h.compare_all(o, op.c, m.serial, ("after: " + op.desc).c_str());
  };
  for (auto& op : pl.prior) do_op(op);
  if (keyout) *keyout = h.key() + "|R:" + pl.R.desc;
  if (pl.R.is_hello && !h.uniq(pl.R.c).empty()) { *outcome = "skip"; *leaks = h.finish(); return 0; }

  // the injected request
  const Op& R = pl.R;
  Msg m = R.make(h); m.serial = h.bus.client(R.c).serial++;
  h.log.push_back("INJECT k=" + std::to_string(k) + (pairs ? " then gap " + std::to_string(pl.gap) : "") + ": " + R.desc);
  h.bus.send_bytes(R.c, encode_msg(m));
#ifdef DBUS_VERIF_HOOKS
  if (pairs) _dbus_verif_set_second_fail_gap(pl.gap);
#endif
  _dbus_set_fail_alloc_counter(k);
  h.bus.pump(); h.bus.pump();
  bool fired = _dbus_get_fail_alloc_counter() > (1 << 30);
#ifdef DBUS_VERIF_HOOKS
  if (pairs && _dbus_verif_get_second_fail_gap() < 0) fired = true;   // the first failure fired (and armed the second, which may not have been reached)
#endif
  _dbus_set_fail_alloc_counter(0x7fffffff);
#ifdef DBUS_VERIF_HOOKS
  _dbus_verif_set_second_fail_gap(-1);
#endif
  h.bus.pump();
  // observation
  std::map<int, std::vector<RecvFrame>> got;
  for (size_t j = 0; j < h.bus.nclients(); j++) if (h.open((int)j)) {
    got[(int)j] = h.bus.drain((int)j);
    if (h.bus.client((int)j).eof) h.fail("disconnected", "client" + std::to_string(j) + " was disconnected by the bus during the injected request");
  }
  auto explain = [&](Out& o, int caller, uint32_t serial) -> std::string {
    for (auto& kv : got) { std::string d = match_frames(kv.second, o[kv.first], kv.first == caller ? serial : 0); if (!d.empty()) return "client" + std::to_string(kv.first) + ": " + d; }
    return "";
  };
  // candidate A: the request took effect completely
  BusModel ma = h.model; Out oa; std::string hello_name;
  if (R.is_hello) {
    for (auto& x : got[R.c]) if (x.valid && x.msg.type == T_RETURN && x.msg.fu32(F_REPLY_SERIAL) == m.serial && x.msg.body.size() == 1) hello_name = x.msg.body[0].s;
    if (!hello_name.empty()) { ma.hello(R.c, hello_name, m.serial, oa); }
    else oa[R.c].push_back(exp_reply("?", m.serial, {}));   // cannot match: forces candidate B
  } else R.apply(ma, m, oa);
  std::string da = explain(oa, R.c, R.is_hello ? 0 : m.serial);   // (Hello's reply precedes NameAcquired)
  // candidate B: nothing happened, the caller got NoMemory
  Out ob; { Exp e = exp_error("", m.serial, kNoMem); e.check_dest = false; ob[R.c].push_back(e); }
  std::string db = explain(ob, R.c, m.serial);
  auto dump = [&]() { std::string s; for (auto& kv : got) if (!kv.second.empty()) s += "  client" + std::to_string(kv.first) + " received:\n" + show_frames(kv.second); return s; };
  if (!da.empty() && !db.empty())
    h.fail("neither-all-nor-nothing", "allocation " + std::to_string(k) + " failed while the bus handled: " + R.desc + "\n  not the complete effect (" + da + ")\n  and not 'no effect + NoMemory to the caller' (" + db + ")\n" + dump());
  bool applied = da.empty();
  if (da.empty() && db.empty()) applied = true;   // (cannot happen: A always contains a reply or a delivery)
  for (auto& kv : got) Bus::free_frames(kv.second);
  *outcome = !fired ? "not-fired" : applied ? "applied" : "nomem";
  if (!fired && !applied) h.fail("spurious-nomem", "no allocation failed but the caller received NoMemory: " + R.desc);
  if (applied) { h.model = ma; if (R.is_hello) { h.bus.client(R.c).unique = hello_name; if (!Hist::all_uniques.insert(hello_name).second) h.fail("unique-name-reused", hello_name); } }
  else {
    // retry with memory available: must now succeed with exactly the modelled effect
    h.log.push_back("retry: " + R.desc);
    if (R.is_hello) {
      RecvFrame rr; std::vector<RecvFrame> oth;
      sync_call(h.bus, R.c, "Hello", {}, &rr, &oth);
      if (!(rr.valid && rr.msg.type == T_RETURN)) h.fail("retry-fails", "Hello had failed with NoMemory when allocation " + std::to_string(k) + " failed; the retry with memory available is answered: " + (rr.valid ? frame_brief(rr.msg) + " " + (rr.msg.body.empty() ? std::string() : rr.msg.body[0].show(200)) : std::string("(nothing)")));
      std::string u = rr.msg.body.empty() ? "" : rr.msg.body[0].s;
      h.bus.client(R.c).unique = u; Hist::all_uniques.insert(u);
      Out o2; h.model.hello(R.c, u, rr.msg.fu32(F_REPLY_SERIAL), o2);
      std::vector<Exp> want; for (auto& e : o2[R.c]) if (e.type == T_SIGNAL) want.push_back(e);
      std::string d = match_frames(oth, want); if (!d.empty()) h.fail("retry-frames", "after the retried Hello: " + d);
      Bus::free_frames(oth); o2.erase(R.c); h.compare_all(o2, -1, 0, "after the retried Hello");
    }
    else { Msg m2 = R.make(h); m2.serial = h.bus.client(R.c).serial++; h.bus.send_bytes(R.c, encode_msg(m2)); Out o2; R.apply(h.model, m2, o2); h.bus.pump(); h.compare_all(o2, R.c, m2.serial, "after the retry"); }
  }
  // state comparison: registry, rules (probe signals), reply slots (disconnects)
  { std::string d = check_registry(h.bus, obs, h.model, {kNames[0], kNames[1], BUS_NAME}); if (!d.empty()) h.fail("state-differs", "after allocation " + std::to_string(k) + " failed (" + *outcome + ") in: " + R.desc + "\n  registry: " + d); }
  for (int v = 0; v < 4; v++) {
    Msg s; s.type = T_SIGNAL; s.set_str(F_PATH, 'o', v & 1 ? "/p/q" : "/other"); s.set_str(F_INTERFACE, 's', v & 2 ? "com.vp.I1" : "com.vp.I2"); s.set_str(F_MEMBER, 's', v & 1 ? "M1" : "M2"); s.body.push_back(Value::str('s', v == 3 ? "x" : "y")); s.fix_signature();
    int from = v == 0 && h.model.primary("com.vp.A") >= 0 ? h.model.primary("com.vp.A") : obs;   // exercises sender='com.vp.A'
    s.serial = h.bus.client(from).serial++;
    h.log.push_back("probe signal " + std::to_string(v) + " from client" + std::to_string(from));
    h.bus.send_bytes(from, encode_msg(s)); Out o; h.model.route(from, s, o); h.bus.pump();
    h.compare_all(o, -1, 0, ("probe signal after allocation " + std::to_string(k) + " failed (" + *outcome + ")").c_str());
  }
  // exact multiset of match rules: remove each pool rule until the bus says MatchRuleNotFound
  for (int c = 0; c < pl.nreg; c++) for (int ri = 0; ri < 6; ri++) {
    MatchRule mr; std::string why; parse_match_rule(kRules[ri], &mr, &why);
    int have = 0; while (h.model.remove_match(c, mr)) have++;
    int got_n = 0;
    for (;;) {
      RecvFrame rr; std::vector<RecvFrame> oth;
      sync_call(h.bus, c, "RemoveMatch", {Value::str('s', kRules[ri])}, &rr, &oth);
      Bus::free_frames(oth);
      if (rr.valid && rr.msg.type == T_RETURN) { got_n++; if (got_n > have + 8) break; continue; }
      break;
    }
    if (got_n != have) h.fail("state-differs", "after allocation " + std::to_string(k) + " failed (" + *outcome + ") in: " + R.desc + "\n  client" + std::to_string(c) + " holds " + std::to_string(got_n) + " copies of the rule " + kRules[ri] + " but the model says " + std::to_string(have));
  }
  for (size_t j = 0; j < h.bus.nclients(); j++) if (h.open((int)j)) { auto g = h.bus.drain((int)j); Bus::free_frames(g); }
  for (int c = 0; c <= unreg; c++) {
    if (!h.open(c)) continue;
    h.log.push_back("client" + std::to_string(c) + " closes");
    h.bus.close_client(c); Out o; h.model.disconnect(c, o); h.bus.pump();
    h.compare_all(o, -1, 0, ("closing client" + std::to_string(c) + " after allocation " + std::to_string(k) + " failed (" + *outcome + ")").c_str());
  }
  (void)count;
  *leaks = h.finish();
  return fired ? 1 : 0;
}

extern "C" int LLVMFuzzerTestOneInput(const uint8_t* data, size_t size) {
  stats_init("C14");
  stats_exec();
  static const bool pairs = getenv("VP_PAIRS") != nullptr;
  FDP f(data, size);
  Plan pl; pl.nreg = 3;
  int unreg = pl.nreg;
  int nprior = (int)pick(f, 7);
  std::vector<std::pair<int, int>> added;
  for (int i = 0; i < nprior; i++) pl.prior.push_back(gen_op(f, pl.nreg, unreg, true, &added));
  static const bool queries = getenv("VP_QUERIES") != nullptr;
  pl.R = queries ? gen_query(f, pl.nreg) : gen_op(f, pl.nreg, unreg, true, &added);
  pl.gap = (int)pick(f, 12);
  int fired = 0, applied = 0, nomem = 0; std::string key;
  static const bool trace = getenv("VP_TRACE") != nullptr;
  if (trace) { for (auto& o : pl.prior) fprintf(stderr, "prior: %s\n", o.desc.c_str()); fprintf(stderr, "R: %s\n", pl.R.desc.c_str()); }
  for (int k = 0; k < 1500; k++) {
    std::pair<long, int> lk; std::string outcome;
    if (trace) fprintf(stderr, "k=%d\n", k);
    int r = run_once(pl, k, pairs, true, &lk, k == 0 ? &key : nullptr, &outcome);
    if ((lk.first != 0 || lk.second != 0) && !getenv("VP_LSAN")) {
      std::pair<long, int> lk2; std::string o2; run_once(pl, k, pairs, false, &lk2, nullptr, &o2);
      if (lk2.first != 0) violation("leak", "libdbus allocations outstanding after bus shutdown (repeatable): " + std::to_string(lk2.first) + " blocks; request: " + pl.R.desc + ", failing allocation k=" + std::to_string(k) + " (" + outcome + ")");
      if (lk2.second != 0) violation("fd-leak", "descriptors leaked (repeatable): " + std::to_string(lk2.second) + "; request: " + pl.R.desc + ", k=" + std::to_string(k));
    }
    if (outcome == "skip") break;
    if (r == 0) break;
    fired++; if (outcome == "applied") applied++; else nomem++;
  }
  stats_class("injected-runs", fired);
  stats_class("outcome:applied-despite-failure", applied);
  stats_class("outcome:nomem-no-effect", nomem);
  std::string kind = pl.R.desc.substr(pl.R.desc.find(' ') + 1); kind = kind.substr(0, kind.find_first_of("( "));
  stats_class("request:" + kind);
  stats_class("prior-ops:" + std::to_string(nprior));
  bool nontrivial = fired > 0 && nprior >= 2 && nomem > 0;
  stats_class(nontrivial ? "nontrivial" : "trivial");
  if (nontrivial) { uint64_t hk = fnv1a(key.data(), key.size()); stats_nontrivial(hk); if (stats_want_sample(hk)) stats_sample(hk, key + " ; allocations failed one at a time: " + std::to_string(fired) + " (" + std::to_string(nomem) + " -> NoMemory, " + std::to_string(applied) + " -> complete effect)"); }
  return 0;
}

#ifdef VP_ENUM
int main(int argc, char** argv) { return vp::enum_main(argc, argv); }
#endif
