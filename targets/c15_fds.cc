// C15 — passed file descriptors arrive intact and are never leaked.
// Raw clients (with or without negotiated fd passing) send messages with 0..6
// memfd descriptors attached by sendmsg, header UNIX_FDS smaller / equal / larger
// than the attached count, to capable and incapable recipients, unowned names,
// policy-denied interfaces; partial messages with descriptors followed by silence;
// closes; virtual time beyond pending_fd_timeout.  Oracles: identity and order of
// received descriptors (fstat dev/ino + offset); conservation of the process'
// descriptor table against a per-connection surplus model at every quiescent point
// and back to baseline at the end.
#include "dbusx.h"
#include "gen.h"
#include "bushelp.h"
#include "stats.h"
#include <sys/mman.h>
#include <sys/stat.h>
#include <unistd.h>
#include <fcntl.h>

using namespace vp;

static const char* const kPolicy =
  "<policy context=\"default\">\n"
  "  <allow user=\"*\"/>\n  <allow own=\"*\"/>\n"
  "  <allow send_destination=\"*\" eavesdrop=\"true\"/>\n  <allow eavesdrop=\"true\"/>\n"
  "  <deny send_interface=\"com.vp.Denied\" send_destination=\"com.vp.Sink\"/>\n"
  "</policy>\n";

static const int kMaxFds = 4;
static const long kFdTimeout = 20000;

struct CS { bool negotiated; int surplus = 0; bool partial = false; std::string partial_rest; int partial_h = 0; Msg partial_msg; };

static std::pair<long, int> run_history(const uint8_t* data, size_t size, bool count) {
  FDP f(data, size);
  Hist h("C15");
  BusLimits lim; lim.max_message_unix_fds = kMaxFds; lim.pending_fd_timeout = kFdTimeout; lim.max_incoming_unix_fds = 64;
  h.start(make_config("session", kPolicy, lim));
  // warm-up connection so that lazily opened descriptors (user database etc.) are not counted later
  { int w = h.bus.connect_raw(); h.model.add_conn(); h.bus.auth(w); h.bus.hello(w); h.bus.close_client(w); h.bus.pump(); h.model.conns[w].alive = false; }
  // a pool of memfds with distinct contents / offsets
  std::vector<int> pool; std::vector<ino_t> ino;
  for (int i = 0; i < 6; i++) { int fd = memfd_create("vp-c15", MFD_CLOEXEC); if (fd < 0) _exit(2); char b[8] = {0}; b[0] = (char)('A' + i); if (write(fd, b, 1 + i) < 0) _exit(2); pool.push_back(fd); struct stat st; fstat(fd, &st); ino.push_back(st.st_ino); }
  int T0 = h.bus.foreign_fd_count();   // bus + harness baseline (pool included), no live clients
  int nclients = 3;
  std::vector<CS> cs(16);
  std::vector<int> cl;
  for (int i = 0; i < nclients; i++) { bool neg = i == 2 ? f.ConsumeBool() : true; int c = h.add_client(true, (uid_t)-1, neg); cs[c].negotiated = neg; cl.push_back(c); }
  int sink = cl[1], plain = cl[2];
  h.own(sink, "com.vp.Sink", 0);
  h.own(plain, "com.vp.Plain", 0);
  auto live = [&]() { int n = 0; for (int c : cl) if (h.open(c)) n++; return n; };
  auto expect_total = [&]() { int s = 0; for (int c : cl) if (h.open(c)) s += cs[c].surplus; return T0 + 2 * live() + s; };
  auto conserve = [&](const char* when) {
    int got = h.bus.foreign_fd_count(), want = expect_total();
    if (got != want) h.fail("fd-conservation", std::string(when) + ": " + std::to_string(got) + " descriptors open, expected " + std::to_string(want) + " (baseline " + std::to_string(T0) + " + 2 per live client + surplus descriptors legitimately pending)");
  };
  auto model_disconnect = [&](int c, Out& o) { h.model.disconnect(c, o); cs[c].surplus = 0; cs[c].partial = false; };
  bool nontrivial = false; uint32_t tok = 0; bool resync_lost = false;
  // expectations for a message that the bus accepted from c with hdr descriptors
  auto deliver = [&](int c, const Msg& m, int hdr, Out& o) -> const char* {
    std::string dest = m.fstr(F_DESTINATION);
    bool denied = m.fstr(F_INTERFACE) == "com.vp.Denied" && dest == "com.vp.Sink";
    int addressed = h.model.primary(dest);
    bool incapable = addressed >= 0 && !cs[addressed].negotiated && hdr > 0;
    if (denied && addressed >= 0) { Exp e = exp_error(h.uniq(c), m.serial, "org.freedesktop.DBus.Error.AccessDenied"); if (m.type != T_CALL || (m.flags & 1)) e.optional = true; o[c].push_back(e); if (hdr > 0) nontrivial = true; return "path:denied"; }
    if (incapable) { Exp e = exp_error(h.uniq(c), m.serial, "org.freedesktop.DBus.Error.NotSupported"); if (m.flags & 1) e.optional = true; o[c].push_back(e); nontrivial = true; return "path:incapable-recipient"; }
    h.model.route(c, m, o);
    if (addressed < 0 && hdr > 0) nontrivial = true;
    return addressed < 0 ? "path:undeliverable" : "path:delivered";
  };
  conserve("after setup");
  int nsteps = 3 + (int)pick(f, 16);
  for (int step = 0; step < nsteps && !resync_lost; step++) {
    int c = cl[pick(f, nclients)];
    int k = (int)pick(f, 12);
    if (k == 11) {
      long ms = kFdTimeout + 1000;
      h.log.push_back("clock advances " + std::to_string(ms) + " ms");
      h.bus.advance(ms);
      Out o;
      for (int x : cl) if (h.open(x) && cs[x].surplus > 0) { h.log.back() += "; client" + std::to_string(x) + " had descriptors pending too long"; auto fr = h.bus.drain(x); Bus::free_frames(fr); if (!h.bus.client(x).eof) h.fail("pending-fd-timeout", "client" + std::to_string(x) + " kept " + std::to_string(cs[x].surplus) + " surplus descriptors beyond pending_fd_timeout without being disconnected"); h.bus.close_client(x); model_disconnect(x, o); nontrivial = true; }
      h.bus.pump();
      h.compare_all(o, -1, 0, "after time passed");
      conserve("after time passed");
      continue;
    }
    if (!h.open(c)) continue;
    if (k == 10) {
      h.log.push_back("client" + std::to_string(c) + " closes (surplus " + std::to_string(cs[c].surplus) + ")");
      if (cs[c].surplus > 0) nontrivial = true;
      h.bus.close_client(c); Out o; model_disconnect(c, o); h.bus.pump();
      h.compare_all(o, -1, 0, "after a close");
      conserve("after a close");
      continue;
    }
    if (cs[c].partial) {
      // finish the half-sent message
      h.log.push_back("client" + std::to_string(c) + " completes its half-sent message");
      h.bus.send_bytes(c, cs[c].partial_rest);
      cs[c].partial = false;
      Msg m = cs[c].partial_msg; int hh = cs[c].partial_h;
      Out o;
      if (hh > cs[c].surplus) { h.bus.pump(); auto fr = h.bus.drain(c); Bus::free_frames(fr); if (!h.bus.client(c).eof) h.fail("missing-fds-accepted", "a message announcing more descriptors than were received was not treated as corrupt"); h.bus.close_client(c); model_disconnect(c, o); }
      else { cs[c].surplus -= hh; deliver(c, m, hh, o); h.bus.pump(); }
      // delivered fds are closed by compare (free_frames)
      h.compare_all(o, -1, 0, "after completing a half-sent message");
      conserve("after completing a half-sent message");
      continue;
    }
    // ---- a message with descriptors
    int nattach = (int)pick(f, 7);            // 0..6 descriptors attached
    int hk = (int)pick(f, 5);
    int hdr = hk <= 2 ? nattach : hk == 3 ? (nattach > 0 ? nattach - 1 : 0) : nattach + 1;   // announced count
    int dk = (int)pick(f, 6);
    std::string dest = dk <= 1 ? "com.vp.Sink" : dk == 2 ? "com.vp.Plain" : dk == 3 ? "com.vp.Nobody" : dk == 4 ? h.uniq(cl[0]) : "com.vp.Sink";
    bool denied = dk == 5; if (denied) dest = "com.vp.Sink";
    Msg m; m.type = f.ConsumeBool() ? T_CALL : T_SIGNAL; m.flags = m.type == T_CALL && rare(f, 3) ? 1 : 0;
    m.set_str(F_DESTINATION, 's', dest); m.set_str(F_PATH, 'o', "/f"); m.set_str(F_INTERFACE, 's', denied ? "com.vp.Denied" : "com.vp.Fd"); m.set_str(F_MEMBER, 's', "Take");
    m.body.push_back(Value::str('s', "f" + std::to_string(++tok)));
    for (int i = 0; i < hdr && i < 8; i++) m.body.push_back(Value::basic('h', i));
    m.fix_signature();
    if (hdr > 0) m.set_u32(F_UNIX_FDS, (uint32_t)hdr);
    m.serial = h.bus.client(c).serial++;
    std::vector<int> att; std::vector<ino_t> att_ino; int first = (int)pick(f, 6);
    for (int i = 0; i < nattach; i++) { att.push_back(pool[(first + i) % 6]); att_ino.push_back(ino[(first + i) % 6]); }
    std::string bytes = encode_msg(m);
    bool partial = rare(f, 6) && cs[c].negotiated;
    h.log.push_back("client" + std::to_string(c) + (cs[c].negotiated ? "" : "(no fd passing)") + " sends " + frame_brief(m).substr(0, 110) + " with " + std::to_string(nattach) + " descriptors attached, UNIX_FDS=" + std::to_string(hdr) + " (surplus before: " + std::to_string(cs[c].surplus) + ")" + (partial ? " -- only the first 24 bytes for now" : ""));
    Out o;
    int cap = kMaxFds - cs[c].surplus;
    if (partial) {
      h.bus.send_bytes(c, bytes.substr(0, 24), att);
      h.bus.pump();
      if (nattach > cap) { auto fr = h.bus.drain(c); Bus::free_frames(fr); if (!h.bus.client(c).eof) h.fail("too-many-fds-accepted", "more descriptors than max_message_unix_fds allows were accepted"); h.bus.close_client(c); model_disconnect(c, o); }
      else { cs[c].surplus += nattach; cs[c].partial = true; cs[c].partial_rest = bytes.substr(24); cs[c].partial_h = hdr; cs[c].partial_msg = m; }
      h.compare_all(o, -1, 0, "after a partial message");
      conserve("after a partial message");
      if (nattach > 0) nontrivial = true;
      continue;
    }
    h.bus.send_bytes(c, bytes, att);
    if (!h.bus.pump()) h.fail("spin", "bus main loop did not become idle");
    int avail;
    bool disc = false;
    if (!cs[c].negotiated) { avail = 0; if (hdr > 0) disc = true; }            // descriptors never reach a connection that did not negotiate them
    else { if (nattach > cap) disc = true; avail = cs[c].surplus + nattach; if (hdr > avail) disc = true; }
    if (disc) {
      auto fr = h.bus.drain(c); Bus::free_frames(fr);
      if (!h.bus.client(c).eof) h.fail("bad-fd-message-accepted", "a message with too many attached descriptors / announcing more descriptors than received did not get its sender disconnected");
      h.bus.close_client(c); model_disconnect(c, o);
      nontrivial = true;
    } else {
      if (cs[c].negotiated) cs[c].surplus = avail - hdr;
      const char* pathclass = deliver(c, m, hdr, o);
      // compare: the addressed recipient's copy must carry exactly hdr descriptors, the same files in the same order
      for (int j : cl) {
        if (!h.open(j)) continue;
        auto fr = h.bus.drain(j);
        std::string d = match_frames(fr, o[j]);
        if (!d.empty()) h.fail("frames-differ", "client" + std::to_string(j) + ": " + d + "\n  got:\n" + show_frames(fr) + "  want:\n" + show_exps(o[j]));
        for (auto& x : fr) {
          if (!x.valid || !x.msg.has(F_UNIX_FDS)) { if (!x.fds.empty()) h.fail("stray-fds", "descriptors arrived with a frame that announces none"); continue; }
          if (!cs[j].negotiated) h.fail("fds-to-incapable", "a connection that did not negotiate fd passing received a message with descriptors");
          if (x.fds.size() != x.msg.fu32(F_UNIX_FDS)) h.fail("fd-count", "frame announces " + std::to_string(x.msg.fu32(F_UNIX_FDS)) + " descriptors but " + std::to_string(x.fds.size()) + " arrived");
          // which of the sender's descriptors these are: surplus ones first (FIFO), then the newly attached
          if ((int)x.fds.size() == hdr && cs[c].surplus + hdr == (int)att.size() + 0 && (int)att.size() >= hdr) {
            for (int q = 0; q < hdr; q++) { struct stat st; if (fstat(x.fds[q], &st) < 0 || st.st_ino != att_ino[q]) h.fail("fd-identity", "descriptor #" + std::to_string(q) + " received is not the file that was sent in that position"); if (lseek(x.fds[q], 0, SEEK_CUR) != (off_t)(1 + (first + q) % 6)) h.fail("fd-identity", "descriptor #" + std::to_string(q) + " does not share the open file description (offset differs)"); }
          }
        }
        Bus::free_frames(fr);
      }
      conserve("after a message with descriptors");
      if (count) stats_class(pathclass);
      continue;
    }
    h.compare_all(o, -1, 0, "after a bad fd message");
    conserve("after a bad fd message");
  }
  // everything closed: back to baseline
  for (int c : cl) if (h.open(c)) h.bus.close_client(c);
  h.bus.pump();
  { int got = h.bus.foreign_fd_count(); if (got != T0) h.fail("fd-leak-at-end", "after all clients closed " + std::to_string(got) + " descriptors are open, baseline was " + std::to_string(T0)); }
  for (int fd : pool) close(fd);
  if (count) stats_class(nontrivial ? "nontrivial" : "trivial");
  if (nontrivial && count) { std::string k = h.key(); uint64_t hh = fnv1a(k.data(), k.size()); stats_nontrivial(hh); if (stats_want_sample(hh)) stats_sample(hh, h.sample()); }
  return h.finish();
}

extern "C" int LLVMFuzzerTestOneInput(const uint8_t* data, size_t size) {
  stats_init("C15");
  stats_exec();
  auto r = run_history(data, size, true);
  if (r.first != 0 || r.second != 0) {
    auto r2 = run_history(data, size, false);
    if (r2.first != 0) violation("leak", "libdbus allocations outstanding after bus shutdown (repeatable): " + std::to_string(r2.first));
    if (r2.second != 0) violation("fd-leak", "descriptors still open after bus shutdown (repeatable): " + std::to_string(r2.second));
  }
  return 0;
}
