// C18 — a monitor sees everything that matches and can affect nothing.
// Histories of ordinary traffic (sends of all types incl. undeliverable ones,
// RequestName/ReleaseName, closes, late connects) with clients turning into
// monitors at any point (also while owning/queued for names or with calls
// outstanding).  Oracles: (1) to everybody else a BecomeMonitor is
// indistinguishable from a disconnect (busmodel.cc treats it as one);
// (2) the monitor holds exactly one copy of every client-written message that
// matches its filter (true sender, body intact) and of every bus-originated
// frame; (3) afterwards it owns nothing, is never addressed, and is closed if it
// sends.
#include "dbusx.h"
#include "gen.h"
#include "bushelp.h"
#include "stats.h"
#include <unistd.h>

using namespace vp;

static const char* const kPool[] = {"com.vp.A", "com.vp.B"};

struct Mon { int c; std::vector<MatchRule> filter; bool unspec = false; };   // empty filter = everything; unspec: no verdict any more (see below)
struct Written { Msg m; int c; std::string sender; };      // a frame a client wrote, with the sender the bus must stamp on the captured copy

static bool filter_matches(const Mon& mon, const Msg& stamped, const BusModel& model, int sender) {
  if (mon.filter.empty()) return true;
  // the addressed recipient (if the destination has an owner) decides destination= keys; otherwise the destination text does
  int addressed = stamped.has(F_DESTINATION) ? model.primary(stamped.fstr(F_DESTINATION)) : -1;
  MatchCtx cx = model.ctx_for(sender, addressed);
  for (auto& r : mon.filter) { MatchRule r2 = r; r2.eavesdrop = true; if (rule_matches(r2, stamped, cx)) return true; }
  return false;
}
// a bus-originated expectation rendered as a message for filter evaluation
static Msg exp_as_msg(const Exp& e) {
  Msg m; m.type = e.type;
  if (e.type == T_SIGNAL) { m.set_str(F_PATH, 'o', e.path); m.set_str(F_INTERFACE, 's', e.iface); m.set_str(F_MEMBER, 's', e.member); }
  if (e.type == T_ERROR) m.set_str(F_ERROR_NAME, 's', e.errname.empty() ? "x.y" : e.errname);
  if (!e.dest.empty()) m.set_str(F_DESTINATION, 's', e.dest);
  m.set_str(F_SENDER, 's', BUS_NAME);
  m.body = e.body;
  return m;
}

static std::pair<long, int> run_history(const uint8_t* data, size_t size, bool count) {
  FDP f(data, size);
  Hist h("C18");
  BusLimits lim;
  h.start(make_config("session", "", lim));
  int nclients = 3 + (int)pick(f, 2);
  for (int i = 0; i < nclients; i++) h.add_client();
  for (int i = 0; i < nclients; i++) if (rare(f, 2)) h.add_rule(i, f.ConsumeBool() ? "type='signal'" : "sender='org.freedesktop.DBus'");
  h.own(0, kPool[0], (uint32_t)pick(f, 8));
  if (f.ConsumeBool()) h.own(1, kPool[0], (uint32_t)pick(f, 8));
  if (f.ConsumeBool()) h.own(1, kPool[1], (uint32_t)pick(f, 8));
  std::vector<Mon> mons;
  uint32_t tok = 0;
  bool nontrivial = false;
  int nsteps = 3 + (int)pick(f, 18);

  // after an operation: ordinary clients vs `out`, monitors vs `want_mon` (frames written by clients) + model.emitted
  auto settle = [&](Out& out, const std::vector<Written>& written, int caller, uint32_t serial, const char* what) {
    if (!h.bus.pump()) h.fail("spin", "bus main loop did not become idle");
    for (auto& mon : mons) out.erase(mon.c);
    h.compare_all(out, caller, serial, what);
    for (auto& mon : mons) {
      if (!h.open(mon.c)) continue;
      if (mon.unspec) { auto g = h.bus.drain(mon.c); Bus::free_frames(g); continue; }
      std::vector<Exp> want;
      for (auto& w : written) { Msg st = h.model.stamp(w.m, w.c); st.set_str(F_SENDER, 's', w.sender); if (filter_matches(mon, st, h.model, w.c)) want.push_back(exp_forward(st)); }
      for (auto& e : h.model.emitted) { if (mon.filter.empty() || filter_matches(mon, exp_as_msg(e), h.model, -1)) want.push_back(e); }
      auto fr = h.bus.drain(mon.c);
      if (h.bus.client(mon.c).eof) h.fail("monitor-closed", "monitor client" + std::to_string(mon.c) + " was disconnected");
      std::string d = match_frames(fr, want);
      if (!d.empty()) h.fail("monitor-frames-differ", std::string(what) + ": monitor client" + std::to_string(mon.c) + ": " + d + "\n  got:\n" + show_frames(fr) + "  want:\n" + show_exps(want));
      Bus::free_frames(fr);
    }
    h.model.emitted.clear();
  };

  h.model.emitted.clear();
  for (int step = 0; step < nsteps; step++) {
    int c = (int)pick(f, nclients);
    int k = (int)pick(f, 14);
    bool is_mon = false; for (auto& mon : mons) if (mon.c == c) is_mon = true;
    if (!h.open(c)) continue;
    if (is_mon) {
      if (k <= 1) {
        // a monitor that sends anything is closed, and nothing it sent has any effect
        Msg m; m.type = T_CALL; m.set_str(F_DESTINATION, 's', f.ConsumeBool() ? std::string(BUS_NAME) : h.uniq(0)); m.set_str(F_PATH, 'o', "/m"); m.set_str(F_MEMBER, 's', "FromMonitor"); m.serial = h.bus.client(c).serial++;
        h.log.push_back("monitor client" + std::to_string(c) + " sends a message");
        h.bus.send_bytes(c, encode_msg(m));
        h.bus.pump();
        auto fr = h.bus.drain(c); Bus::free_frames(fr);
        if (!h.bus.client(c).eof) h.fail("monitor-not-closed", "a monitor sent a message and was not disconnected");
        h.bus.close_client(c);
        Out o; std::vector<Written> none;
        for (size_t i = 0; i < mons.size(); i++) if (mons[i].c == c) { mons.erase(mons.begin() + i); break; }
        // [U] When a *monitor* connection goes away the bus also drops other monitors' filter rules that name its unique name in
        // sender= / destination= ("this service name will never be recycled", bus/signals.c rule_list_remove_by_connection), as it
        // does for ordinary match rules (C07 treats that as unspecified too).  A monitor whose filter named the departed name gets
        // no verdict from here on.
        for (auto& mon : mons) for (auto& r : mon.filter) if ((r.has_dest && r.dest == h.uniq(c)) || (r.has_sender && r.sender == h.uniq(c))) { mon.unspec = true; if (count) stats_class("monitor-filter-names-departed-monitor"); }
        // [U] whether other monitors get a copy of what the misbehaving monitor wrote: drain them without verdict
        for (auto& mon : mons) if (h.open(mon.c)) { auto g = h.bus.drain(mon.c); Bus::free_frames(g); }
        settle(o, none, -1, 0, "after a monitor sent a message");
        nontrivial = true;
      }
      continue;
    }
    Out out; std::vector<Written> written;
    if (k <= 4) {
      Msg m; m.type = 1 + (uint8_t)pick(f, 4); m.flags = (uint8_t)pick(f, 4); m.be = f.ConsumeBool();
      int dk = (int)pick(f, 8);
      std::string dest;
      if (dk <= 1) dest = kPool[pick(f, 2)];
      else if (dk <= 4) dest = h.uniq((int)pick(f, nclients));   // may be a monitor's former name or a closed client: undeliverable
      else if (dk == 5) dest = "com.vp.Nobody";
      if (!dest.empty()) m.set_str(F_DESTINATION, 's', dest);
      if (m.type == T_CALL || m.type == T_SIGNAL) { m.set_str(F_PATH, 'o', "/t"); m.set_str(F_MEMBER, 's', "Tok"); }
      if (m.type == T_SIGNAL || f.ConsumeBool()) m.set_str(F_INTERFACE, 's', f.ConsumeBool() ? "com.vp.T" : "com.vp.U");
      if (m.type == T_ERROR) m.set_str(F_ERROR_NAME, 's', "com.vp.Err");
      if (m.type == T_ERROR || m.type == T_RETURN) m.set_u32(F_REPLY_SERIAL, 900 + (uint32_t)pick(f, 40));
      if (dest.empty() && m.type != T_SIGNAL) continue;   // destination-less non-signals are handled by the bus' own connection (C03 finding), not captured [FIXME in dispatch.c]
      m.body.push_back(Value::str('s', "t-" + std::to_string(++tok))); m.fix_signature();
      m.serial = h.bus.client(c).serial++;
      h.log.push_back("client" + std::to_string(c) + " sends " + frame_brief(m));
      h.bus.send_bytes(c, encode_msg(m));
      h.model.route(c, m, out);
      h.model.add_optional_eavesdrop(out, -1, nullptr);
      written.push_back({m, c, h.uniq(c)});
      bool undeliverable = !dest.empty() && h.model.primary(dest) < 0;
      if (!mons.empty() && undeliverable) nontrivial = true;
      settle(out, written, -1, 0, "after a send");
    } else if (k <= 7) {
      bool req = k <= 6;
      std::string name = kPool[pick(f, 2)]; uint32_t flags = (uint32_t)pick(f, 8);
      uint32_t serial = h.bus.client(c).serial;
      Msg dc; dc.type = T_CALL; dc.serial = serial; dc.set_str(F_PATH, 'o', BUS_PATH); dc.set_str(F_DESTINATION, 's', BUS_NAME); dc.set_str(F_INTERFACE, 's', BUS_IFACE); dc.set_str(F_MEMBER, 's', req ? "RequestName" : "ReleaseName");
      dc.body = {Value::str('s', name)}; if (req) dc.body.push_back(Value::basic('u', flags)); dc.fix_signature();
      h.bus.client(c).serial++;
      h.bus.send_bytes(c, encode_msg(dc));
      std::string e; BusModel before = h.model;
      if (req) h.model.request_name(c, name, flags, serial, out, &e); else h.model.release_name(c, name, serial, out, &e);
      before.add_optional_eavesdrop(out, c, &dc);
      h.log.push_back("client" + std::to_string(c) + (req ? " RequestName(" : " ReleaseName(") + name + (req ? "," + std::to_string(flags) : "") + ")");
      written.push_back({dc, c, h.uniq(c)});
      if (!mons.empty()) nontrivial = true;
      settle(out, written, c, serial, "after a name operation");
    } else if (k == 8 && nclients > 3) {
      h.log.push_back("client" + std::to_string(c) + " (" + h.uniq(c) + ") closes");
      h.bus.close_client(c);
      h.model.disconnect(c, out);
      h.model.add_optional_eavesdrop(out, -1, nullptr);
      settle(out, written, -1, 0, "after a close");
    } else if (k <= 11 && mons.size() < 2) {
      // BecomeMonitor: empty filter, selective filter, or an invalid rule (must fail and change nothing)
      int fk = (int)pick(f, 9);
      std::vector<std::string> texts;
      // destination= filters take unique names (a well-known name there is [U] in the rule table): another client's name, which may
      // lose its owner later, and the monitor's own former name, which has no owner from now on
      if (fk == 5) texts = {"destination='" + h.uniq((int)pick(f, nclients)) + "'"};
      else if (fk == 6) texts = {"destination='" + h.uniq(c) + "'"};
      else if (fk == 7) texts = {"destination='" + h.uniq((int)pick(f, nclients)) + "'", "sender='com.vp.B',type='signal'"};
      else if (fk == 8) texts = {"path='/t'", "type='method_return'"};
      if (fk == 1) texts = {"type='signal'"};
      else if (fk == 2) texts = {"interface='com.vp.T'", "type='error'"};
      else if (fk == 3) texts = {"member='NameOwnerChanged'"};
      else if (fk == 4) texts = {"type='signal'", "this is not a rule"};
      Value arr = Value::array("s"); for (auto& t : texts) arr.kids.push_back(Value::str('s', t));
      uint32_t serial = h.bus.client(c).serial;
      Msg dc; dc.type = T_CALL; dc.serial = serial; dc.set_str(F_PATH, 'o', BUS_PATH); dc.set_str(F_DESTINATION, 's', BUS_NAME); dc.set_str(F_INTERFACE, 's', "org.freedesktop.DBus.Monitoring"); dc.set_str(F_MEMBER, 's', "BecomeMonitor");
      dc.body = {arr, Value::basic('u', 0)}; dc.fix_signature();
      h.bus.client(c).serial++;
      h.log.push_back("client" + std::to_string(c) + " (" + h.uniq(c) + ") BecomeMonitor(" + std::to_string(texts.size()) + " rules" + (fk == 4 ? ", one invalid" : "") + ")");
      h.bus.send_bytes(c, encode_msg(dc));
      h.bus.pump();
      std::string me = h.uniq(c);
      if (fk == 4) {
        // must fail with an error and change nothing
        Exp e = exp_error(me, serial, ""); e.any_errname = true;
        h.model.emit_to(c, e, out);
        written.push_back({dc, c, me});
        h.model.add_optional_eavesdrop(out, c, &dc);
        settle(out, written, -1, 0, "after a failed BecomeMonitor");
      } else {
        // the caller's own view: its reply, then it is a monitor.  What it already receives as a monitor starts after the switch.
        auto fr = h.bus.drain(c);
        bool ok = false; for (auto& x : fr) if (x.valid && x.msg.type == T_RETURN && x.msg.fu32(F_REPLY_SERIAL) == serial) ok = true;
        if (!ok) h.fail("become-monitor-failed", "BecomeMonitor with valid rules failed:\n" + show_frames(fr));
        Bus::free_frames(fr);
        // (1) to everybody else: exactly a disconnect
        h.model.become_monitor(c, out);
        h.model.add_optional_eavesdrop(out, -1, nullptr);
        Mon mon; mon.c = c;
        for (auto& t : texts) { MatchRule r; std::string w; if (parse_match_rule(t, &r, &w) != RuleParse::Ok) h.fail("harness", "filter rule does not parse"); mon.filter.push_back(r); }
        // existing monitors see the call, the reply and the release signals; the new monitor's own first frames are not predicted
        Exp rep = exp_reply(me, serial, {}); h.model.emitted.insert(h.model.emitted.begin(), rep);
        written.push_back({dc, c, me});
        // ordinary clients and the *older* monitors are checked; the new monitor's first frames are not predicted
        std::vector<Mon> all = mons; all.push_back(mon);
        { auto g = h.bus.drain(c); Bus::free_frames(g); }
        settle(out, written, -1, 0, "after BecomeMonitor");
        mons = all;
        nontrivial = nontrivial || true;
      }
    } else if (k == 12) {
      // a late connection appears
      if (h.bus.nclients() < 9) {
        int n = h.bus.connect_raw(); int m = h.model.add_conn(); (void)m;
        if (!h.bus.auth(n)) h.fail("setup", "auth failed");
        uint32_t serial = h.bus.client(n).serial;
        std::string u = h.bus.hello(n);
        if (u.empty()) h.fail("hello", "Hello failed");
        Hist::all_uniques.insert(u);
        h.log.push_back("client" + std::to_string(n) + " connects: Hello -> " + u);
        Msg dc; dc.type = T_CALL; dc.serial = serial; dc.set_str(F_PATH, 'o', BUS_PATH); dc.set_str(F_DESTINATION, 's', BUS_NAME); dc.set_str(F_INTERFACE, 's', BUS_IFACE); dc.set_str(F_MEMBER, 's', "Hello");
        written.push_back({dc, n, u});   // the Hello call is captured with the name it is about to receive
        h.model.hello(n, u, serial, out);
        out.erase(n);
        h.model.add_optional_eavesdrop(out, -1, nullptr);
        settle(out, written, -1, 0, "after a late connect");
      }
    }
    // (3) a monitor owns no names and is never listed
    if (!mons.empty() && rare(f, 3)) {
      int obs = -1; for (int i = 0; i < nclients; i++) { bool m = false; for (auto& mon : mons) if (mon.c == i) m = true; if (!m && h.open(i)) { obs = i; break; } }
      if (obs >= 0) {
        std::vector<std::string> names(kPool, kPool + 2); for (auto& mon : mons) names.push_back(h.uniq(mon.c));
        std::vector<Written> none;
        std::string d = check_registry(h.bus, obs, h.model, names);
        if (!d.empty()) h.fail("registry-differs", d);
        for (size_t j = 0; j < h.bus.nclients(); j++) if (h.open((int)j)) { auto g = h.bus.drain((int)j); Bus::free_frames(g); }
        h.model.emitted.clear();
      }
    }
  }
  if (count) { stats_class(nontrivial ? "nontrivial" : "trivial"); stats_class("monitors:" + std::to_string(mons.size())); }
  if (nontrivial && count) { std::string k = h.key(); uint64_t hh = fnv1a(k.data(), k.size()); stats_nontrivial(hh); if (stats_want_sample(hh)) stats_sample(hh, h.sample()); }
  return h.finish();
}

extern "C" int LLVMFuzzerTestOneInput(const uint8_t* data, size_t size) {
  stats_init("C18");
  stats_exec();
  auto r = run_history(data, size, true);
  if (r.first != 0 || r.second != 0) {
    auto r2 = run_history(data, size, false);
    if (r2.first != 0) violation("leak", "libdbus allocations outstanding after bus shutdown (repeatable): " + std::to_string(r2.first));
    if (r2.second != 0) violation("fd-leak", "descriptors still open after bus shutdown (repeatable): " + std::to_string(r2.second));
  }
  return 0;
}
