// C06 — security policy decisions equal the documented rule semantics.
// Each case draws a policy (default / group / user / mandatory contexts, allow and
// deny rules over attribute values from tiny pools), a cast of clients under two
// uids, and a series of probe messages and RequestName probes.  Oracle:
// engine/policymodel.cc (last matching rule wins, nothing allowed by default,
// contexts in documented order, no pruning) combined with the routing model.
#include "dbusx.h"
#include "gen.h"
#include "bushelp.h"
#include "policymodel.h"
#include "stats.h"
#include <unistd.h>
#include <algorithm>

using namespace vp;

static const char* const kIf[] = {"com.vp.I1", "com.vp.I2"};
static const char* const kMem[] = {"M1", "M2"};
static const char* const kPath[] = {"/p1", "/p2"};
static const char* const kErr[] = {"com.vp.E1", "com.vp.E2"};
static const char* const kDest[] = {"com.vp.setup.N1", "com.vp.setup.N2", "com.vp.setup", "com.vp.setup.N", "com.vp.nobody"};
static const char* const kOwn[] = {"com.vp.own.X", "com.vp.own.X.sub", "com.vp.own.Xy", "com.vp.other"};
static const char* const kOwnRule[] = {"com.vp.own.X", "com.vp.own", "com.vp.other", "com.vp.own.X.sub"};

static PRule gen_prule(FDP& f) {
  PRule r; r.allow = f.ConsumeBool();
  int kind = (int)pick(f, 7);
  if (kind == 6) {
    r.kind = PRule::OWN;
    int w = (int)pick(f, 4);
    if (w == 3) r.own_star = true; else { r.own = kOwnRule[pick(f, 4)]; r.own_prefix = w == 2; }
    return r;
  }
  r.kind = kind <= 3 ? PRule::SEND : PRule::RECEIVE;
  if (rare(f, 2)) r.type = 1 + (int)pick(f, 4);
  bool use_err = rare(f, 6);
  if (use_err) r.error = kErr[pick(f, 2)];
  else {
    if (rare(f, 3)) r.iface = kIf[pick(f, 2)];
    if (rare(f, 5)) r.path = kPath[pick(f, 2)];
    if ((!r.iface.empty() || !r.path.empty()) && rare(f, 2)) r.member = kMem[pick(f, 2)];   // [D config-parser] a member needs an interface or a path
  }
  int dk = (int)pick(f, 6);
  if (r.kind == PRule::SEND) { if (dk == 1) r.dest = kDest[pick(f, 5)]; else if (dk == 2) { r.dest = kDest[pick(f, 5)]; r.dest_prefix = true; } else if (dk == 3) r.dest_star = true; else if (dk == 4) r.dest = BUS_NAME; }
  else { if (dk == 1) r.dest = kDest[pick(f, 5)]; else if (dk == 3) r.dest_star = true; else if (dk == 4) r.dest = BUS_NAME; }
  if (r.kind == PRule::SEND && rare(f, 6)) r.broadcast = f.ConsumeBool() ? Tri3::True : Tri3::False;
  if (r.broadcast == Tri3::True && !r.dest_star) { r.dest.clear(); r.dest_prefix = false; }   // [D config-parser] send_broadcast="true" with a destination "cannot match anything" and is rejected
  if (rare(f, 5)) { r.has_reqreply = true; r.reqreply = f.ConsumeBool(); }
  if (rare(f, 5)) { r.has_eavesdrop = true; r.eavesdrop = f.ConsumeBool(); }
  if (rare(f, 12)) { if (f.ConsumeBool()) r.min_fds = 1; else r.max_fds = 0; }
  return r;
}

static std::pair<long, int> run_history(const uint8_t* data, size_t size, bool count) {
  FDP f(data, size);
  Hist h("C06");
  PolicyCfg pc;
  auto fill = [&](std::vector<PRule>& v, int max) { int n = (int)pick(f, max + 1); for (int i = 0; i < n; i++) v.push_back(gen_prule(f)); };
  // a permissive base so that probes are not all denied: generated rules then carve exceptions (and vice versa)
  if (f.ConsumeBool()) { PRule a; a.kind = PRule::SEND; a.dest_star = true; pc.deflt.push_back(a); PRule b; b.kind = PRule::RECEIVE; b.dest_star = true; pc.deflt.push_back(b); if (f.ConsumeBool()) { PRule e; e.kind = PRule::RECEIVE; e.has_eavesdrop = true; e.eavesdrop = true; pc.deflt.push_back(e); PRule s; s.kind = PRule::SEND; s.has_eavesdrop = true; s.eavesdrop = true; s.dest_star = true; pc.deflt.push_back(s); } }
  fill(pc.deflt, 4);
  if (rare(f, 2)) { pc.groups.push_back({f.ConsumeBool() ? "root" : "daemon", {}}); fill(pc.groups.back().second, 3); }
  if (rare(f, 2)) { pc.users.push_back({f.ConsumeBool() ? "root" : "daemon", {}}); fill(pc.users.back().second, 3); }
  if (rare(f, 3)) { pc.users.push_back({"daemon", {}}); fill(pc.users.back().second, 2); }
  fill(pc.mandatory, 3);
  // scaffold: what the harness itself needs, placed last in the mandatory context so that no generated rule can override it
  { PRule a; a.kind = PRule::SEND; a.dest = BUS_NAME; pc.scaffold.push_back(a);
    PRule b; b.kind = PRule::RECEIVE; b.dest = BUS_NAME; pc.scaffold.push_back(b);
    PRule o; o.kind = PRule::OWN; o.own = "com.vp.setup"; o.own_prefix = true; pc.scaffold.push_back(o);
    for (auto& r : pc.scaffold) pc.scaffold_mandatory_xml += "  " + r.xml() + "\n"; }
  BusLimits lim;
  // Render the policy: every context may be split into two <policy> elements, elements of different contexts interleave in a
  // generated order (the order of rules *within* a context is what the documentation makes significant and is preserved), and a
  // generated run of elements may live in an <include>d file.  The model (PolicyCfg::rules_for) is unaffected by any of this.
  struct Blk { std::string open; std::vector<PRule> rules; std::string extra; };
  std::vector<std::vector<Blk>> queues;
  auto chunks = [&](const std::string& open, const std::vector<PRule>& v, const std::string& first_extra) {
    std::vector<Blk> q; size_t cut = v.size();
    if (!v.empty() && rare(f, 2)) cut = pick(f, v.size() + 1);
    Blk a; a.open = open; a.rules.assign(v.begin(), v.begin() + cut); a.extra = first_extra; q.push_back(a);
    if (cut < v.size()) { Blk b; b.open = open; b.rules.assign(v.begin() + cut, v.end()); q.push_back(b); }
    queues.push_back(q);
  };
  chunks("<policy context=\"default\">", pc.deflt, "  <allow user=\"*\"/>\n");
  // (entries for the same user or group form ONE context: their relative order is significant, so they share a queue)
  auto by_name = [&](const std::vector<std::pair<std::string, std::vector<PRule>>>& v, const char* attr) {
    std::vector<std::string> seen;
    for (auto& e : v) { bool dup = false; for (auto& n : seen) if (n == e.first) dup = true; if (dup) continue; seen.push_back(e.first);
      std::vector<PRule> all; for (auto& e2 : v) if (e2.first == e.first) all.insert(all.end(), e2.second.begin(), e2.second.end());
      chunks(std::string("<policy ") + attr + "=\"" + e.first + "\">", all, ""); }
  };
  by_name(pc.groups, "group");
  by_name(pc.users, "user");
  chunks("<policy context=\"mandatory\">", pc.mandatory, "");
  std::vector<Blk> seq; std::vector<size_t> pos(queues.size(), 0);
  bool shuffle = rare(f, 2);
  for (;;) { std::vector<size_t> live; for (size_t i = 0; i < queues.size(); i++) if (pos[i] < queues[i].size()) live.push_back(i); if (live.empty()) break; size_t qi = shuffle ? live[pick(f, live.size())] : live[0]; seq.push_back(queues[qi][pos[qi]++]); }
  auto render = [&](size_t a, size_t b) { std::string s; for (size_t i = a; i < b; i++) { s += seq[i].open + "\n" + seq[i].extra; for (auto& r : seq[i].rules) s += "  " + r.xml() + "\n"; s += "</policy>\n"; } return s; };
  std::string inc_path, policy_xml;
  size_t ia = seq.size(), ib = seq.size();
  if (rare(f, 2)) { ia = pick(f, seq.size() + 1); ib = ia + pick(f, seq.size() - ia + 1); }
  if (ib > ia) {
    char ip[128]; snprintf(ip, sizeof ip, "/tmp/vp-c06-inc-%d.conf", (int)getpid()); inc_path = ip;
    std::string inc = "<!DOCTYPE busconfig PUBLIC \"-//freedesktop//DTD D-Bus Bus Configuration 1.0//EN\" \"http://www.freedesktop.org/standards/dbus/1.0/busconfig.dtd\">\n<busconfig>\n" + render(ia, ib) + "</busconfig>\n";
    FILE* fp = fopen(ip, "w"); if (fp) { fwrite(inc.data(), 1, inc.size(), fp); fclose(fp); }
    policy_xml = render(0, ia) + "<include>" + inc_path + "</include>\n" + render(ib, seq.size());
    h.log.push_back("included file " + inc_path + ":\n" + render(ia, ib));
  } else policy_xml = render(0, seq.size());
  policy_xml += "<policy context=\"mandatory\">\n" + pc.scaffold_mandatory_xml + "</policy>\n";
  h.start(make_config("", policy_xml, lim));
  if (!inc_path.empty()) unlink(inc_path.c_str());
  h.model.replies_must_be_requested = false;
  h.log.push_back("policy:\n" + policy_xml);
  if (count) { stats_class(ib > ia ? "layout:with-include" : "layout:single-file"); if (shuffle) stats_class("layout:interleaved-contexts"); }
  // cast: A sender, B owner of two names, C queued on one of them and eavesdropping
  static const uid_t uid_of[2] = {(uid_t)-1, 1};
  static const char* const user_of[2] = {"root", "daemon"};
  int ua = (int)pick(f, 2), ub = (int)pick(f, 2), uc = (int)pick(f, 2);
  int A = h.add_client(true, uid_of[ua]), B = h.add_client(true, uid_of[ub]), C = h.add_client(true, uid_of[uc]);
  std::vector<std::vector<PRule>> rules(3);
  rules[A] = pc.rules_for(user_of[ua], {user_of[ua]}); rules[B] = pc.rules_for(user_of[ub], {user_of[ub]}); rules[C] = pc.rules_for(user_of[uc], {user_of[uc]});
  h.log.push_back(std::string("A=client0 user ") + user_of[ua] + ", B=client1 user " + user_of[ub] + ", C=client2 user " + user_of[uc]);
  h.own(B, "com.vp.setup.N1", 0); h.own(B, "com.vp.setup.N2", 0); h.own(C, "com.vp.setup.N1", 0);
  if (uc == 0) h.add_rule(C, "eavesdrop='true'");   // [S] the bus may restrict eavesdropping rules to privileged connections (libdbus: root / bus owner)
  else h.add_rule(C, "type='signal',member='M1'");
  h.add_rule(B, "type='signal'");
  if (f.ConsumeBool()) h.add_rule(A, "type='signal',interface='com.vp.I1'");
  bool nontrivial = false;
  int nprobes = 4 + (int)pick(f, 16);
  uint32_t tok = 0;
  for (int p = 0; p < nprobes; p++) {
    int s = (int)pick(f, 3);   // sender: mostly A
    if (pick(f, 3) != 0) s = A;
    if (rare(f, 5)) {
      // RequestName probe
      std::string name = kOwn[pick(f, 4)];
      uint32_t serial = h.bus.client(s).serial;
      bool ok = can_own(rules[s], name);
      std::string before = h.model.owner_unique(name);
      h.bus.bus_call(s, "RequestName", {Value::str('s', name), Value::basic('u', (uint32_t)pick(f, 8) & 5)});
      h.log.push_back("client" + std::to_string(s) + " RequestName(" + name + ") -> model " + (ok ? "governed by ownership rules" : "AccessDenied"));
      h.bus.pump();
      auto fr = h.bus.drain(s);
      bool denied = false, answered = false;
      for (auto& x : fr) if (x.valid && (x.msg.type == T_ERROR || x.msg.type == T_RETURN) && x.msg.fu32(F_REPLY_SERIAL) == serial) { answered = true; denied = x.msg.type == T_ERROR && x.msg.fstr(F_ERROR_NAME) == "org.freedesktop.DBus.Error.AccessDenied"; }
      Bus::free_frames(fr);
      if (!answered) h.fail("no-reply", "RequestName was not answered");
      if (ok == denied) h.fail("own-decision-differs", std::string("RequestName(") + name + ") was " + (denied ? "denied" : "allowed") + " but the documented own-rule evaluation says " + (ok ? "allow" : "deny"));
      if (!ok) {
        RecvFrame r; std::vector<RecvFrame> oth; sync_call(h.bus, s, "GetNameOwner", {Value::str('s', name)}, &r, &oth); Bus::free_frames(oth);
        std::string now = r.valid && r.msg.type == T_RETURN ? r.msg.body[0].s : "";
        if (now != before) h.fail("denied-own-changed-ownership", "a denied RequestName changed the owner of " + name);
      } else { Out o; std::string e; /* keep the model in step */ }
      // ownership changes of probe names are not tracked further: release again
      if (ok) { RecvFrame r; std::vector<RecvFrame> oth; sync_call(h.bus, s, "ReleaseName", {Value::str('s', name)}, &r, &oth); Bus::free_frames(oth); }
      for (int j = 0; j < 3; j++) { auto g = h.bus.drain(j); Bus::free_frames(g); }
      if (count) stats_class(ok ? "own:allowed" : "own:denied");
      continue;
    }
    Msg m; m.be = f.ConsumeBool();
    m.type = 1 + (uint8_t)pick(f, 4);
    if (rare(f, 6)) m.flags = 1;
    int dk = (int)pick(f, 8);
    std::string dest;
    if (dk <= 1) dest = "com.vp.setup.N1"; else if (dk == 2) dest = "com.vp.setup.N2"; else if (dk == 3) dest = h.uniq(B); else if (dk == 4) dest = h.uniq(C); else if (dk == 5) dest = h.uniq(A);
    // dk 6,7: no destination
    if (dest.empty() && m.type != T_SIGNAL) m.type = T_SIGNAL;
    if (!dest.empty()) m.set_str(F_DESTINATION, 's', dest);
    if (m.type == T_CALL || m.type == T_SIGNAL) { m.set_str(F_PATH, 'o', kPath[pick(f, 2)]); m.set_str(F_MEMBER, 's', kMem[pick(f, 2)]); }
    if (m.type == T_SIGNAL || rare(f, 2)) m.set_str(F_INTERFACE, 's', kIf[pick(f, 2)]);
    if (m.type == T_ERROR) m.set_str(F_ERROR_NAME, 's', kErr[pick(f, 2)]);
    int addressed = dest.empty() ? -1 : h.model.primary(dest);
    bool requested = false;
    if (m.type == T_ERROR || m.type == T_RETURN) {
      // reply to a real outstanding call if there is one, else unsolicited
      uint32_t rs = 7000 + (uint32_t)pick(f, 9);
      for (auto& pr : h.model.pending) if (pr.callee == s && pr.caller == addressed && f.ConsumeBool()) { rs = pr.serial; requested = true; break; }
      m.set_u32(F_REPLY_SERIAL, rs);
      requested = false; for (auto& pr : h.model.pending) if (pr.callee == s && pr.caller == addressed && pr.serial == rs) requested = true;
    }
    m.body.push_back(Value::str('s', "p" + std::to_string(++tok))); m.fix_signature();
    m.serial = h.bus.client(s).serial++;
    Msg st = h.model.stamp(m, s);
    Out out; bool unknown = false; int conflict = 0; std::string verdict;
    if (dest.empty()) {
      // broadcast: each rule recipient is filtered individually, silently
      for (int x : h.model.rule_recipients(st, s, -1)) {
        int c1 = 0, c2 = 0;
        Verd vs = can_send(rules[s], SendQ{&st, false, x, 0}, h.model, &c1), vr = can_receive(rules[x], RecvQ{&st, false, s, false, 0}, h.model, &c2);
        conflict |= c1 | c2;
        if (vs == Verd::Unknown || vr == Verd::Unknown) unknown = true;
        else if (vs == Verd::Allow && vr == Verd::Allow) out[x].push_back(exp_forward(st));
        verdict += " client" + std::to_string(x) + (vs == Verd::Allow && vr == Verd::Allow ? ":deliver" : ":drop");
      }
    } else if (addressed < 0) {
      Exp e = exp_error(h.uniq(s), m.serial, ""); e.any_errname = true; e.optional = true; out[s].push_back(e);   // undeliverable or denied before routing: not this target's subject
      for (int x : h.model.rule_recipients(st, s, -1)) { Exp y = exp_forward(st); y.optional = true; out[x].push_back(y); }
      verdict = " undeliverable";
    } else {
      int c1 = 0, c2 = 0;
      Verd vs = can_send(rules[s], SendQ{&st, requested, addressed, 0}, h.model, &c1), vr = can_receive(rules[addressed], RecvQ{&st, requested, s, false, 0}, h.model, &c2);
      conflict |= c1 | c2;
      if (vs == Verd::Unknown || vr == Verd::Unknown) unknown = true;
      else if (vs == Verd::Allow && vr == Verd::Allow) {
        verdict = " allowed";
        // consume / open reply slots exactly as the routing model does
        h.model.route(s, m, out);
        // eavesdroppers and other match-rule recipients are filtered individually; route() added them unconditionally: re-filter
        for (auto& kv : out) if (kv.first != addressed) { std::vector<Exp> keep; for (auto& e : kv.second) if (!e.full) keep.push_back(e); kv.second = keep; }
        if (addressed == s) { /* a message to oneself: the addressed copy stays */ }
        for (int x : h.model.rule_recipients(st, s, addressed)) {
          Verd es = can_send(rules[s], SendQ{&st, false, x, 0}, h.model), er = can_receive(rules[x], RecvQ{&st, false, s, true, 0}, h.model);
          Exp y = exp_forward(st);
          if (es == Verd::Unknown || er == Verd::Unknown || m.type == T_RETURN || m.type == T_ERROR) y.optional = true;   // [U] requested_reply as seen by an eavesdropper
          else if (!(es == Verd::Allow && er == Verd::Allow)) continue;
          out[x].push_back(y);
          verdict += " +eavesdropper client" + std::to_string(x);
        }
      } else {
        verdict = std::string(" denied (") + (vs != Verd::Allow ? "send" : "receive") + " rules)";
        if (requested) { for (size_t i = 0; i < h.model.pending.size(); i++) if (h.model.pending[i].callee == s && h.model.pending[i].caller == addressed && h.model.pending[i].serial == m.fu32(F_REPLY_SERIAL)) { h.model.pending.erase(h.model.pending.begin() + i); break; } }   // [D] the slot is consumed when the reply is examined
        Exp e = exp_error(h.uniq(s), m.serial, "org.freedesktop.DBus.Error.AccessDenied");
        if (m.type != T_CALL || (m.flags & 1)) e.optional = true;   // the statement promises the error for method calls
        out[s].push_back(e);
      }
    }
    h.log.push_back("client" + std::to_string(s) + " sends " + frame_brief(m) + (requested ? " (requested reply)" : "") + " -> model" + (unknown ? " unknown [U]" : verdict));
    h.bus.send_bytes(s, encode_msg(m));
    if (!h.bus.pump()) h.fail("spin", "bus main loop did not become idle");
    if (unknown) { for (int j = 0; j < 3; j++) { auto g = h.bus.drain(j); Bus::free_frames(g); } if (count) stats_class("probe:unknown"); break; }   // the models may have diverged (reply slots): stop here
    h.compare_all(out, -1, 0, "after a probe");
    if (conflict) nontrivial = true;
    if (count) stats_class(std::string("probe:") + (dest.empty() ? "broadcast" : addressed < 0 ? "undeliverable" : verdict.find("allowed") != std::string::npos ? "unicast-allowed" : "unicast-denied"));
  }
  if (count) stats_class(nontrivial ? "nontrivial" : "trivial");
  if (nontrivial && count) { std::string k = h.key(); uint64_t hh = fnv1a(k.data(), k.size()); stats_nontrivial(hh); if (stats_want_sample(hh)) stats_sample(hh, h.sample()); }
  return h.finish();
}

extern "C" int LLVMFuzzerTestOneInput(const uint8_t* data, size_t size) {
  stats_init("C06");
  stats_exec();
  auto r = run_history(data, size, true);
  if (r.first != 0 || r.second != 0) {
    auto r2 = run_history(data, size, false);
    if (r2.first != 0) violation("leak", "libdbus allocations outstanding after bus shutdown (repeatable): " + std::to_string(r2.first));
    if (r2.second != 0) violation("fd-leak", "descriptors still open after bus shutdown (repeatable): " + std::to_string(r2.second));
  }
  return 0;
}
