// C17 (threads clause) — every call awaiting a reply completes exactly once, also
// when several threads use one connection.  A sampling stress, not a schedule
// search: T worker threads share a private DBusConnection whose peer is a harness
// thread answering according to a behaviour code carried in each call (now, after
// later calls, twice, with an error, never).  Workers issue calls and complete
// them by blocking, by notify + dispatch loop, or cancel them (only calls the peer
// never answers, so no inherent race).  Invariants: each call completes exactly
// once with the reply carrying its own token (or NoReply for unanswered ones with a
// short timeout), a cancelled call is never notified, serials are non-zero and
// distinct, nothing hangs (20 s watchdog), ASan/UBSan stay quiet.  Real time.
#include "dbusx.h"
#include "gen.h"
#include "rawpeer.h"
#include "stats.h"
#include <atomic>
#include <thread>
#include <mutex>
#include <chrono>
#include <set>
#include <poll.h>

using namespace vp;

enum Beh { NOW, LATER, TWICE, ERR, NEVER };
struct Op { int beh; int mode; };   // mode: 0 block, 1 notify+dispatch loop, 2 send_with_reply_and_block, 3 cancel (beh forced NEVER)
struct CallRec { std::atomic<int> notified{0}; uint32_t serial = 0; std::string token; int beh = 0, mode = 0; std::string outcome; };

static std::mutex g_mu;
static std::string g_fail_kind, g_fail_what;
static void record_fail(const char* k, const std::string& w) { std::lock_guard<std::mutex> l(g_mu); if (g_fail_kind.empty()) { g_fail_kind = k; g_fail_what = w; } }
static void on_notify(DBusPendingCall*, void* ud) { ((CallRec*)ud)->notified++; }

static void peer_thread(RawPeer* peer, std::atomic<bool>* stop) {
  std::vector<Msg> later;
  while (!stop->load()) {
    struct pollfd p = {peer->fd, POLLIN, 0};
    poll(&p, 1, 2);
    auto frames = peer->read_frames();
    for (auto& fr : frames) {
      if (!fr.valid || fr.msg.type != T_CALL || fr.msg.body.size() != 2) continue;
      int beh = (int)fr.msg.body[1].u;
      auto mk = [&](const Msg& call, bool err) { Msg r; r.type = err ? T_ERROR : T_RETURN; r.flags = 1; r.serial = 1000000 + call.serial; r.set_u32(F_REPLY_SERIAL, call.serial); if (err) r.set_str(F_ERROR_NAME, 's', "com.vp.Failed"); r.body.push_back(call.body[0]); r.fix_signature(); return r; };
      if (beh == NOW) peer->write_msg(mk(fr.msg, false));
      else if (beh == ERR) peer->write_msg(mk(fr.msg, true));
      else if (beh == TWICE) { peer->write_msg(mk(fr.msg, false)); peer->write_msg(mk(fr.msg, false)); }
      else if (beh == LATER) { later.push_back(fr.msg); if (later.size() >= 2) { for (size_t i = later.size(); i > 0; i--) peer->write_msg(mk(later[i - 1], false)); later.clear(); } }
      // NEVER: nothing
    }
    Bus::free_frames(frames);
    if (frames.empty() && !later.empty()) { for (auto& c : later) { Msg r; r.type = T_RETURN; r.flags = 1; r.serial = 1000000 + c.serial; r.set_u32(F_REPLY_SERIAL, c.serial); r.body.push_back(c.body[0]); r.fix_signature(); peer->write_msg(r); } later.clear(); }
  }
}

static void worker(DBusConnection* c, int tid, std::vector<Op> ops, std::vector<CallRec>* recs, size_t base) {
  for (size_t i = 0; i < ops.size(); i++) {
    CallRec& r = (*recs)[base + i];
    r.beh = ops[i].beh; r.mode = ops[i].mode; r.token = "t" + std::to_string(tid) + "-" + std::to_string(i);
    DBusMessage* m = dbus_message_new_method_call("com.vp.Peer", "/p", "com.vp.I", "M");
    const char* tk = r.token.c_str(); dbus_uint32_t b = (dbus_uint32_t)r.beh;
    dbus_message_append_args(m, DBUS_TYPE_STRING, &tk, DBUS_TYPE_UINT32, &b, DBUS_TYPE_INVALID);
    int timeout = r.beh == NEVER ? 40 : 20000;
    DBusMessage* reply = nullptr;
    if (r.mode == 2) {
      DBusError e; dbus_error_init(&e);
      reply = dbus_connection_send_with_reply_and_block(c, m, timeout, &e);
      r.serial = dbus_message_get_serial(m);
      if (!reply) { r.outcome = std::string("error:") + (e.name ? e.name : "?"); dbus_error_free(&e); }
    } else {
      DBusPendingCall* p = nullptr;
      if (!dbus_connection_send_with_reply(c, m, &p, timeout) || !p) { r.outcome = "send-failed"; dbus_message_unref(m); continue; }
      r.serial = dbus_message_get_serial(m);
      if (r.mode == 3) {
        dbus_pending_call_set_notify(p, on_notify, &r, nullptr);
        dbus_pending_call_cancel(p);
        r.outcome = "cancelled";
        dbus_pending_call_unref(p);
        dbus_message_unref(m);
        continue;
      }
      if (r.mode == 1) {
        dbus_pending_call_set_notify(p, on_notify, &r, nullptr);
        auto t0 = std::chrono::steady_clock::now();
        while (!dbus_pending_call_get_completed(p)) {
          dbus_connection_read_write_dispatch(c, 5);
          if (std::chrono::steady_clock::now() - t0 > std::chrono::seconds(15)) { record_fail("never-completed", "call " + r.token + " (behaviour " + std::to_string(r.beh) + ") did not complete within 15 s of dispatching"); break; }
        }
      } else dbus_pending_call_block(p);
      if (dbus_pending_call_get_completed(p)) reply = dbus_pending_call_steal_reply(p);
      dbus_pending_call_unref(p);
    }
    if (reply) {
      if (dbus_message_get_reply_serial(reply) != r.serial) record_fail("reply-paired-with-other-call", "call " + r.token + " serial " + std::to_string(r.serial) + " completed with a reply for serial " + std::to_string(dbus_message_get_reply_serial(reply)));
      int t = dbus_message_get_type(reply);
      const char* got = nullptr; DBusError e; dbus_error_init(&e);
      if (t == DBUS_MESSAGE_TYPE_METHOD_RETURN) { if (dbus_message_get_args(reply, &e, DBUS_TYPE_STRING, &got, DBUS_TYPE_INVALID) && got) r.outcome = std::string("reply:") + got; else r.outcome = "reply:?"; }
      else r.outcome = std::string("error:") + (dbus_message_get_error_name(reply) ? dbus_message_get_error_name(reply) : "?");
      dbus_error_free(&e);
      dbus_message_unref(reply);
    } else if (r.outcome.empty()) r.outcome = "no-reply-object";
    dbus_message_unref(m);
  }
}

extern "C" int LLVMFuzzerTestOneInput(const uint8_t* data, size_t size) {
  static bool init = false; if (!init) { dbus_threads_init_default(); init = true; }
  stats_init("C17");
  stats_exec();
  FDP f(data, size);
  int T = 2 + (int)pick(f, 3);
  std::vector<std::vector<Op>> plan(T);
  size_t total = 0;
  for (int t = 0; t < T; t++) { int n = 2 + (int)pick(f, 6); for (int i = 0; i < n; i++) { Op o; o.mode = (int)pick(f, 4); o.beh = o.mode == 3 ? NEVER : (int)pick(f, 5); if (o.beh == NEVER && o.mode != 3 && !rare(f, 2)) o.beh = NOW; if (o.beh == NEVER && o.mode == 1) o.mode = 0;   /* without a main loop nothing runs DBusTimeouts: only the blocking paths time a call out */ plan[t].push_back(o); } total += plan[t].size(); }
  g_fail_kind.clear(); g_fail_what.clear();
  RawPeer peer;
  DBusConnection* c = peer.connect(false, false);
  if (!c) return 0;
  std::vector<CallRec> recs(total);
  std::atomic<bool> stop{false};
  std::thread pt(peer_thread, &peer, &stop);
  std::vector<std::thread> ws; size_t base = 0;
  std::atomic<int> done{0};
  for (int t = 0; t < T; t++) { ws.emplace_back([&, t, base]() { worker(c, t, plan[t], &recs, base); done++; }); base += plan[t].size(); }
  // usually a "main loop" thread dispatches all the time, so that replies are often taken by dispatch while their caller blocks
  bool with_dispatcher = !rare(f, 4);
  std::atomic<bool> dstop{false};
  std::thread dispatcher;
  if (with_dispatcher) dispatcher = std::thread([&]() { while (!dstop.load()) dbus_connection_read_write_dispatch(c, 1); });
  auto t0 = std::chrono::steady_clock::now();
  while (done.load() < T) { std::this_thread::sleep_for(std::chrono::milliseconds(2)); if (std::chrono::steady_clock::now() - t0 > std::chrono::seconds(20)) { std::string s; for (auto& r : recs) s += r.token + ":" + r.outcome + " "; violation("hang", "worker threads did not finish within 20 s (deadlock or lost wake-up); calls so far: " + s); } }
  for (auto& w : ws) w.join();
  dstop = true; if (with_dispatcher) dispatcher.join();
  stop = true; pt.join();
  // drain whatever is left (duplicate replies etc.) on one thread, then close
  for (int i = 0; i < 5; i++) dbus_connection_read_write_dispatch(c, 0);
  dbus_connection_close(c);
  while (dbus_connection_dispatch(c) == DBUS_DISPATCH_DATA_REMAINS) {}
  dbus_connection_unref(c);
  // ---- invariants
  std::string hist; for (auto& r : recs) hist += "  " + r.token + " serial=" + std::to_string(r.serial) + " beh=" + std::to_string(r.beh) + " mode=" + std::to_string(r.mode) + " -> " + r.outcome + " notified=" + std::to_string(r.notified.load()) + "\n";
  if (!g_fail_kind.empty()) violation(g_fail_kind.c_str(), g_fail_what + "\ncalls:\n" + hist);
  std::set<uint32_t> serials;
  int nthreads_with_block = 0;
  for (auto& r : recs) {
    if (r.outcome == "send-failed") continue;
    if (r.serial == 0) violation("serial-zero", "a call was sent with serial 0\ncalls:\n" + hist);
    if (!serials.insert(r.serial).second) violation("serial-reused", "serial " + std::to_string(r.serial) + " was assigned to two calls\ncalls:\n" + hist);
    if (r.mode == 3) { if (r.notified.load() != 0) violation("cancelled-notified", "the cancelled call " + r.token + " was notified\ncalls:\n" + hist); continue; }
    // (another thread may complete the call between send_with_reply and set_notify; then the function is never called [D dbus_pending_call_set_notify] and completion is observed by polling)
    if (r.notified.load() > 1) violation("notify-count", "call " + r.token + " was notified " + std::to_string(r.notified.load()) + " times\ncalls:\n" + hist);
    std::string want = r.beh == NEVER ? "error:org.freedesktop.DBus.Error.NoReply" : r.beh == ERR ? "error:com.vp.Failed" : "reply:" + r.token;
    if (r.outcome != want) violation("wrong-completion", "call " + r.token + " completed with '" + r.outcome + "' but its peer behaviour prescribes '" + want + "'\ncalls:\n" + hist);
    nthreads_with_block++;
  }
  stats_class("threads:" + std::to_string(T) + (with_dispatcher ? "+dispatcher" : ""));
  bool nontrivial = T >= 2 && total >= 6;
  stats_class(nontrivial ? "nontrivial" : "trivial");
  if (nontrivial) { std::string k; for (auto& pl : plan) { for (auto& o : pl) k += std::to_string(o.beh) + "/" + std::to_string(o.mode) + ","; k += "|"; } uint64_t h = fnv1a(k.data(), k.size()); stats_nontrivial(h); if (stats_want_sample(h)) stats_sample(h, "threads x (behaviour/mode): " + k); }
  dbus_shutdown();
  return 0;
}
