// C04 — name ownership follows the specification's state machine.
// History target: 2-4 raw clients + an observer on a permissive in-process bus;
// RequestName (all flag combinations) / ReleaseName / late Hello / abrupt close.
// After every operation: reply, signals at every client (addressee + arguments,
// requester's signals before its reply), then GetNameOwner / NameHasOwner /
// ListQueuedOwners / ListNames against the model (engine/busmodel.cc).
#include "dbusx.h"
#include "gen.h"
#include "bushelp.h"
#include "stats.h"
#include <unistd.h>

using namespace vp;

static std::vector<std::string> g_log;
static void fail(const char* kind, const std::string& what) {
  std::string s;
  for (auto& l : g_log) s += "  " + l + "\n";
  violation(kind, what + "\nhistory:\n" + s);
}

static const char* const kPool[] = {"com.vp.A", "com.vp.B", "com.vp.c-1"};
static const char* const kOdd[] = {"bad..name", "nodots", ":1.99", "org.freedesktop.DBus", "", "com.vp.9x", ":not.mine"};

// returns (libdbus blocks leaked, descriptors leaked) for this history
static std::pair<long, int> run_history(const uint8_t* data, size_t size, bool count) {
  FDP f(data, size);
  g_log.clear();
  Bus bus;
  BusLimits lim;
  std::string err;
  if (!bus.start(make_config("session", "", lim), &err)) { fprintf(stderr, "bus start failed: %s\n", err.c_str()); _exit(2); }
  BusModel model;
  int nclients = 2 + (int)pick(f, 3);
  std::vector<std::string> pool(kPool, kPool + 3);
  // observer: registered, no rules, never owns names
  int obs = bus.connect_raw();
  if (!bus.auth(obs)) fail("setup", "observer authentication failed");
  int mobs = model.add_conn();
  { std::string u = bus.hello(obs); if (u.empty()) fail("setup", "observer Hello failed"); Out o; model.hello(mobs, u, 0, o); }
  std::vector<int> cl, mc;  // bus client index, model conn index
  for (int i = 0; i < nclients; i++) {
    int c = bus.connect_raw();
    if (!bus.auth(c)) fail("setup", "client authentication failed");
    cl.push_back(c); mc.push_back(model.add_conn());
  }
  auto do_hello = [&](int i) {
    std::vector<RecvFrame> extra;
    uint32_t serial = bus.client(cl[i]).serial;
    std::string u = bus.hello(cl[i], &extra);
    g_log.push_back("client" + std::to_string(i) + " Hello -> " + u);
    if (u.empty() || u[0] != ':' || !is_unique_name(u)) fail("hello", "Hello did not return a unique name: '" + u + "'");
    for (size_t k = 0; k < model.conns.size(); k++) if (model.conns[k].unique == u) fail("hello", "unique name " + u + " handed out twice");
    Out o; model.hello(mc[i], u, serial, o);
    // what c itself must have received besides the reply: NameAcquired(unique)
    std::vector<Exp> want; for (auto& e : o[mc[i]]) if (e.type == T_SIGNAL) want.push_back(e);
    std::string d = match_frames(extra, want);
    if (!d.empty()) fail("hello-frames", "after Hello: " + d + "\n  got:\n" + show_frames(extra) + "  want:\n" + show_exps(want));
    Bus::free_frames(extra);
    // other clients' NameOwnerChanged for the new unique name
    for (int j = 0; j < nclients; j++) if (j != i && bus.client(cl[j]).open()) {
      auto fr = bus.drain(cl[j]);
      std::string d2 = match_frames(fr, o[mc[j]]);
      if (!d2.empty()) fail("hello-frames", "client" + std::to_string(j) + " after client" + std::to_string(i) + "'s Hello: " + d2 + "\n  got:\n" + show_frames(fr) + "  want:\n" + show_exps(o[mc[j]]));
      Bus::free_frames(fr);
    }
    // subscribe to NameOwnerChanged (some with an arg0 filter)
    int mode = (int)pick(f, 4);
    std::string rule = "type='signal',sender='org.freedesktop.DBus',interface='org.freedesktop.DBus',member='NameOwnerChanged'";
    if (mode == 3) return;  // no rule at all
    if (mode == 2) { std::string n = pool[pick(f, 3)]; rule += ",arg0='" + n + "'"; }
    { MatchRule mr; std::string why; if (parse_match_rule(rule, &mr, &why) != RuleParse::Ok) fail("setup", "harness rule does not parse: " + why); model.add_match(mc[i], mr); }
    RecvFrame r; std::vector<RecvFrame> oth;
    sync_call(bus, cl[i], "AddMatch", {Value::str('s', rule)}, &r, &oth);
    g_log.push_back("client" + std::to_string(i) + " AddMatch " + rule);
    if (!(r.valid && r.msg.type == T_RETURN) || !oth.empty()) fail("setup", "AddMatch failed or produced extra frames");
  };
  std::vector<bool> helloed(nclients, false);
  for (int i = 0; i < nclients; i++) if (i < 2 || !rare(f, 3)) { do_hello(i); helloed[i] = true; }

  bool contended = false;
  int nops = 1 + (int)pick(f, 24);
  for (int step = 0; step < nops; step++) {
    int i = (int)pick(f, nclients);
    int op = (int)pick(f, 10);
    Client& c = bus.client(cl[i]);
    if (!c.open()) continue;
    if (!helloed[i]) { if (op < 5) { do_hello(i); helloed[i] = true; } continue; }
    Out out; std::string e; uint32_t serial = 0; bool is_call = false; bool undefined_bits = false; std::string touched;
    if (op <= 5) {
      std::string name = rare(f, 8) ? kOdd[pick(f, 7)] : pool[pick(f, 3)];
      uint32_t flags = (uint32_t)pick(f, 8);
      if (rare(f, 12)) { flags |= 8u << pick(f, 20); undefined_bits = true; }
      serial = c.serial; touched = name;
      bus.bus_call(cl[i], "RequestName", {Value::str('s', name), Value::basic('u', flags)});
      uint32_t code = model.request_name(mc[i], name, flags, serial, out, &e);
      g_log.push_back("client" + std::to_string(i) + "(" + c.unique + ") RequestName('" + name + "', " + std::to_string(flags) + ") -> model " + (code ? std::to_string(code) : e));
      is_call = true;
    } else if (op <= 7) {
      std::string name = rare(f, 8) ? kOdd[pick(f, 7)] : pool[pick(f, 3)];
      serial = c.serial; touched = name;
      bus.bus_call(cl[i], "ReleaseName", {Value::str('s', name)});
      uint32_t code = model.release_name(mc[i], name, serial, out, &e);
      g_log.push_back("client" + std::to_string(i) + "(" + c.unique + ") ReleaseName('" + name + "') -> model " + (code ? std::to_string(code) : e));
      is_call = true;
    } else if (op == 8) {
      g_log.push_back("client" + std::to_string(i) + "(" + c.unique + ") closes its socket");
      bus.close_client(cl[i]);
      model.disconnect(mc[i], out);
    } else continue;
    for (auto& kv : model.q) if (kv.second.size() >= 2) contended = true;
    if (!bus.pump()) fail("spin", "bus main loop did not become idle");
    // compare every client's frames
    for (int j = 0; j < nclients; j++) {
      if (!bus.client(cl[j]).open()) continue;
      auto fr = bus.drain(cl[j]);
      if (bus.client(cl[j]).eof) fail("disconnected", "client" + std::to_string(j) + " was disconnected by the bus");
      std::vector<Exp> want = out[mc[j]];
      std::string d = match_frames(fr, want, (is_call && j == i) ? serial : 0);
      if (!d.empty() && undefined_bits && j == i && fr.size() == 1 && fr[0].valid && fr[0].msg.type == T_ERROR) { /* [U] undefined flag bits: an error that changes nothing is acceptable */ }
      else if (!d.empty()) fail("frames-differ", "client" + std::to_string(j) + " (" + bus.client(cl[j]).unique + "): " + d + "\n  got:\n" + show_frames(fr) + "  want:\n" + show_exps(want));
      Bus::free_frames(fr);
    }
    { auto fr = bus.drain(obs); if (!fr.empty()) fail("frames-differ", "observer (no match rules) received frames:\n" + show_frames(fr)); }
    // state queries: the name(s) this operation touched after every step, everything at the end
    std::vector<std::string> names;
    if (!touched.empty() && is_bus_name(touched)) names.push_back(touched);
    if (op == 8 || step + 1 == nops) { names.assign(pool.begin(), pool.end()); names.push_back(BUS_NAME); for (int j = 0; j < nclients; j++) if (helloed[j]) names.push_back(bus.client(cl[j]).unique); }
    std::string d = check_registry(bus, obs, model, names);
    if (!d.empty()) fail("registry-differs", d);
  }
  if (count) stats_class("clients:" + std::to_string(nclients));
  if (count) stats_class(contended ? "contended" : "uncontended");
  if (contended && count) {
    std::string key; for (auto& l : g_log) key += l + "|";
    key = normalize_uniques(key);  // unique-name numbers differ between runs
    uint64_t h = fnv1a(key.data(), key.size());
    stats_nontrivial(h);
    if (stats_want_sample(h)) { std::string s; for (auto& l : g_log) s += l + "; "; stats_sample(h, normalize_uniques(s)); }
  }
  long leaked = bus.stop();
  return {leaked, bus.fds_leaked};
}

extern "C" int LLVMFuzzerTestOneInput(const uint8_t* data, size_t size) {
  stats_init("C04");
  stats_exec();
  auto r = run_history(data, size, true);
  if (r.first != 0 || r.second != 0) {
    // one-time initialisations inside libdbus look like a leak the first time: a real leak repeats
    auto r2 = run_history(data, size, false);
    if (r2.first != 0) fail("leak", "libdbus allocations outstanding after bus shutdown (repeatable): " + std::to_string(r2.first));
    if (r2.second != 0) fail("fd-leak", "descriptors still open after bus shutdown (repeatable): " + std::to_string(r2.second));
  }
  return 0;
}
