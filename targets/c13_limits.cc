// C13 — configured resource limits are never exceeded.
// Configurations with limits drawn from 1..4 (message size 512..4096) and
// histories of connect / authenticate / Hello / close by two users,
// RequestName / ReleaseName, AddMatch / RemoveMatch, outstanding calls and replies,
// and messages sized around max_message_size.  Oracle: model counters; a request
// that would exceed a limit is refused with LimitsExceeded (or the socket is not
// served) and changes nothing; freed capacity is usable again.
#include "dbusx.h"
#include "gen.h"
#include "bushelp.h"
#include "stats.h"
#include <unistd.h>

using namespace vp;

struct Sock { int c; int uid_idx; int state; /* 0 waiting for accept, 1 accepted (incomplete), 2 completed, 3 closed */ bool auth_sent = false; uint32_t hello_tries = 0; };

static std::pair<long, int> run_history(const uint8_t* data, size_t size, bool count) {
  FDP f(data, size);
  Hist h("C13");
  BusLimits lim;
  int max_completed = 2 + (int)pick(f, 4), max_per_user = 1 + (int)pick(f, 4), max_incomplete = 1 + (int)pick(f, 3);
  int max_names = 2 + (int)pick(f, 3), max_rules = 1 + (int)pick(f, 3), max_replies = 1 + (int)pick(f, 3);
  long max_msg = 512 * (1 + (long)pick(f, 8));
  lim.max_completed = max_completed; lim.max_per_user = max_per_user; lim.max_incomplete = max_incomplete; lim.max_names = max_names;
  lim.max_match_rules = max_rules; lim.max_replies = max_replies; lim.max_message_size = max_msg; lim.auth_timeout = 100000000;
  h.start(make_config("session", "", lim));
  h.model.max_names = max_names; h.model.max_replies = max_replies;
  h.log.push_back("limits: completed=" + std::to_string(max_completed) + " per_user=" + std::to_string(max_per_user) + " incomplete=" + std::to_string(max_incomplete) + " names=" + std::to_string(max_names) +
                  " rules=" + std::to_string(max_rules) + " replies=" + std::to_string(max_replies) + " msgsize=" + std::to_string(max_msg));
  static const uid_t uids[2] = {(uid_t)-1, 1};   // own uid (root) and 'daemon'
  bool two_users = rare(f, 3);
  std::vector<Sock> socks;
  std::vector<int> accept_queue;   // indices into socks, in connect order
  int n_incomplete = 0, n_completed = 0, per_user[2] = {0, 0};
  bool hit_limit = false, freed_after_hit = false, reused = false;
  static const char* const kNames[] = {"com.vp.L1", "com.vp.L2", "com.vp.L3", "com.vp.L4"};
  uint32_t tok = 0; int rule_no = 0;
  std::vector<std::vector<std::string>> rule_texts;   // per socket

  auto serve_queue = [&]() {
    // the bus accepts waiting sockets while it has room for incomplete connections
    while (!accept_queue.empty() && n_incomplete < max_incomplete) { int s = accept_queue.front(); accept_queue.erase(accept_queue.begin()); if (socks[s].state == 0) { socks[s].state = 1; n_incomplete++; } }
  };
  auto check_handshakes = [&](const char* what) {
    if (!h.bus.pump()) h.fail("spin", "bus main loop did not become idle");
    for (auto& s : socks) {
      if (s.state == 3) continue;
      auto fr = h.bus.drain(s.c);
      Client& cl = h.bus.client(s.c);
      bool answered = cl.text.rfind("OK ", 0) == 0;
      if (s.auth_sent && s.state >= 1 && !answered) h.fail("handshake-not-served", std::string(what) + ": client" + std::to_string(s.c) + " should have been accepted (incomplete connections " + std::to_string(n_incomplete) + "/" + std::to_string(max_incomplete) + ") but got no handshake answer");
      if (s.state == 0 && (answered || !cl.text.empty())) h.fail("incomplete-limit-exceeded", std::string(what) + ": client" + std::to_string(s.c) + " was served although the number of incomplete connections is at its limit " + std::to_string(max_incomplete));
      if (cl.eof && s.state != 3) h.fail("disconnected", std::string(what) + ": client" + std::to_string(s.c) + " was disconnected");
      if (s.state < 2 && !fr.empty()) { /* error replies to refused Hello are consumed by the Hello op itself */ }
      if (s.state < 2) Bus::free_frames(fr); else if (!fr.empty()) h.fail("unexpected-frames", std::string(what) + ": client" + std::to_string(s.c) + " received frames:\n" + show_frames(fr));
    }
  };
  auto new_socket = [&](int uidx) {
    int c = h.bus.connect_raw(uids[uidx]);
    int m = h.model.add_conn(); (void)m;
    h.model.conns[c].alive = true;
    Sock s; s.c = c; s.uid_idx = uidx; s.state = 0;
    socks.push_back(s); rule_texts.resize(socks.size());
    accept_queue.push_back((int)socks.size() - 1);
    h.log.push_back("client" + std::to_string(c) + " connects (uid index " + std::to_string(uidx) + ")");
    // write the handshake right away: it must stay unanswered while the socket is not accepted
    Client& cl = h.bus.client(c);
    char ub[16]; snprintf(ub, sizeof ub, "%u", (unsigned)cl.uid); std::string hx; for (char* p = ub; *p; p++) { char t[4]; snprintf(t, sizeof t, "%02x", (unsigned char)*p); hx += t; }
    h.bus.send_bytes(c, std::string(1, '\0') + "AUTH EXTERNAL " + hx + "\r\nNEGOTIATE_UNIX_FD\r\nBEGIN\r\n");
    cl.begun = true; socks.back().auth_sent = true;
    serve_queue();
    check_handshakes("after a connect");
  };
  auto try_hello = [&](int si) {
    Sock& s = socks[si];
    uint32_t serial = h.bus.client(s.c).serial;
    h.bus.bus_call(s.c, "Hello");
    h.bus.pump();
    auto fr = h.bus.drain(s.c);
    bool want_ok = n_completed < max_completed && per_user[s.uid_idx] < max_per_user;
    h.log.push_back("client" + std::to_string(s.c) + " Hello -> model " + (want_ok ? "ok" : "LimitsExceeded") + " (completed " + std::to_string(n_completed) + "/" + std::to_string(max_completed) + ", this user " + std::to_string(per_user[s.uid_idx]) + "/" + std::to_string(max_per_user) + ")");
    std::string name; std::string err;
    for (auto& x : fr) { if (x.valid && x.msg.type == T_RETURN && x.msg.fu32(F_REPLY_SERIAL) == serial && x.msg.body.size() == 1) name = x.msg.body[0].s; if (x.valid && x.msg.type == T_ERROR && x.msg.fu32(F_REPLY_SERIAL) == serial) err = x.msg.fstr(F_ERROR_NAME); }
    Bus::free_frames(fr);
    if (want_ok) {
      if (name.empty()) h.fail("hello-refused-below-limit", "Hello below every limit failed with '" + err + "'");
      if (!Hist::all_uniques.insert(name).second) h.fail("unique-name-reused", name);
      h.bus.client(s.c).unique = name;
      Out o; h.model.hello(s.c, name, serial, o);
      s.state = 2; n_incomplete--; n_completed++; per_user[s.uid_idx]++;
      if (hit_limit && freed_after_hit) reused = true;
      // other clients' NameOwnerChanged (only those with rules)
      o.erase(s.c);
      for (auto& t : socks) if (t.state == 2 && t.c != s.c) { auto g = h.bus.drain(t.c); std::string d = match_frames(g, o[t.c]); if (!d.empty()) h.fail("frames-differ", "client" + std::to_string(t.c) + " after a Hello: " + d + "\n" + show_frames(g)); Bus::free_frames(g); }
      serve_queue();
      check_handshakes("after a successful Hello");
    } else {
      hit_limit = true;
      if (err != "org.freedesktop.DBus.Error.LimitsExceeded") h.fail("hello-limit-not-enforced", "Hello beyond the connection limit answered with '" + (name.empty() ? err : "success " + name) + "'");
      if (h.bus.client(s.c).eof) h.fail("disconnected", "client refused at Hello was disconnected (the bus is documented to leave it hanging)");
      check_handshakes("after a refused Hello");
    }
  };
  auto close_sock = [&](int si) {
    Sock& s = socks[si];
    h.log.push_back("client" + std::to_string(s.c) + " closes (state " + std::to_string(s.state) + ")");
    int old = s.state;
    h.bus.close_client(s.c);
    Out o;
    if (old == 2) { h.model.disconnect(s.c, o); n_completed--; per_user[s.uid_idx]--; } else { h.model.conns[s.c].alive = false; if (old == 1) n_incomplete--; }
    s.state = 3;
    if (hit_limit) freed_after_hit = true;
    h.bus.pump();
    for (auto& t : socks) if (t.state == 2) { auto g = h.bus.drain(t.c); std::string d = match_frames(g, o[t.c]); if (!d.empty()) h.fail("frames-differ", "client" + std::to_string(t.c) + " after a close: " + d + "\n" + show_frames(g)); Bus::free_frames(g); }
    serve_queue();
    check_handshakes("after a close");
  };
  auto completed = [&]() { std::vector<int> v; for (size_t i = 0; i < socks.size(); i++) if (socks[i].state == 2) v.push_back((int)i); return v; };

  new_socket(0);
  try_hello(0);
  int nsteps = 4 + (int)pick(f, 24);
  for (int step = 0; step < nsteps; step++) {
    int k = (int)pick(f, 16);
    auto comp = completed();
    if (k <= 1 && socks.size() < 10) { new_socket(two_users ? (int)pick(f, 2) : 0); continue; }
    if (k <= 3) { std::vector<int> inc; for (size_t i = 0; i < socks.size(); i++) if (socks[i].state == 1) inc.push_back((int)i); if (!inc.empty()) try_hello(inc[pick(f, inc.size())]); continue; }
    if (k == 4) { std::vector<int> al; for (size_t i = 0; i < socks.size(); i++) if (socks[i].state != 3) al.push_back((int)i); if (al.size() > 1) close_sock(al[pick(f, al.size())]); continue; }
    if (comp.empty()) continue;
    int si = comp[pick(f, comp.size())]; int c = socks[si].c;
    if (k <= 7) {
      std::string name = kNames[pick(f, 4)]; uint32_t flags = (uint32_t)pick(f, 8);
      bool inq = false; for (auto& o : h.model.q[name]) if (o.conn == c) inq = true; if (h.model.q[name].empty()) h.model.q.erase(name);
      if (inq && h.model.names_held(c) >= max_names) continue;   // [U] re-request of a held name exactly at the limit
      uint32_t serial = h.bus.client(c).serial;
      h.bus.bus_call(c, "RequestName", {Value::str('s', name), Value::basic('u', flags)});
      Out o; std::string e; BusModel before = h.model;
      uint32_t code = h.model.request_name(c, name, flags, serial, o, &e);
      h.log.push_back("client" + std::to_string(c) + " RequestName(" + name + "," + std::to_string(flags) + ") -> model " + (code ? std::to_string(code) : e) + " (holds " + std::to_string(before.names_held(c)) + "/" + std::to_string(max_names) + ")");
      if (!code && e.find("LimitsExceeded") != std::string::npos) hit_limit = true; else if (code && hit_limit && freed_after_hit) reused = true;
      h.bus.pump();
      for (auto& t : socks) if (t.state == 2) { auto g = h.bus.drain(t.c); std::string d = match_frames(g, o[t.c], t.c == c ? serial : 0); if (!d.empty()) h.fail("frames-differ", "client" + std::to_string(t.c) + " after RequestName: " + d + "\n  got:\n" + show_frames(g) + "  want:\n" + show_exps(o[t.c])); Bus::free_frames(g); }
      if (!code) { std::string d = check_registry(h.bus, c, h.model, {name}); if (!d.empty()) h.fail("refused-request-changed-state", d); }
    } else if (k == 8) {
      std::string name = kNames[pick(f, 4)];
      uint32_t serial = h.bus.client(c).serial;
      h.bus.bus_call(c, "ReleaseName", {Value::str('s', name)});
      Out o; std::string e; uint32_t code = h.model.release_name(c, name, serial, o, &e);
      h.log.push_back("client" + std::to_string(c) + " ReleaseName(" + name + ") -> model " + std::to_string(code));
      if (code == RL_RELEASED && hit_limit) freed_after_hit = true;
      h.bus.pump();
      for (auto& t : socks) if (t.state == 2) { auto g = h.bus.drain(t.c); std::string d = match_frames(g, o[t.c], t.c == c ? serial : 0); if (!d.empty()) h.fail("frames-differ", "client" + std::to_string(t.c) + " after ReleaseName: " + d + "\n" + show_frames(g)); Bus::free_frames(g); }
    } else if (k <= 10) {
      // AddMatch with a rule that only a dedicated probe signal matches
      std::string member = "R" + std::to_string(++rule_no);
      std::string text = "type='signal',interface='com.vp.Probe',member='" + member + "'";
      bool want_ok = (int)h.model.conns[c].rules.size() < max_rules;
      RecvFrame r; std::vector<RecvFrame> oth;
      sync_call(h.bus, c, "AddMatch", {Value::str('s', text)}, &r, &oth);
      h.log.push_back("client" + std::to_string(c) + " AddMatch(" + member + ") -> model " + (want_ok ? "ok" : "LimitsExceeded") + " (holds " + std::to_string(h.model.conns[c].rules.size()) + "/" + std::to_string(max_rules) + ")");
      if (!oth.empty()) h.fail("unexpected-frames", show_frames(oth));
      if (want_ok) { if (!(r.valid && r.msg.type == T_RETURN)) h.fail("addmatch-refused-below-limit", r.valid ? r.msg.fstr(F_ERROR_NAME) : "no reply"); MatchRule mr; std::string w; parse_match_rule(text, &mr, &w); h.model.add_match(c, mr); rule_texts[si].push_back(text); if (hit_limit && freed_after_hit) reused = true; }
      else { hit_limit = true; if (!(r.valid && r.msg.type == T_ERROR && r.msg.fstr(F_ERROR_NAME) == "org.freedesktop.DBus.Error.LimitsExceeded")) h.fail("rule-limit-not-enforced", "AddMatch beyond max_match_rules_per_connection answered with " + (r.valid && r.msg.type == T_ERROR ? r.msg.fstr(F_ERROR_NAME) : std::string("success"))); }
      // probe: the signal reaches c iff the model holds the rule
      int other = comp[pick(f, comp.size())]; int oc = socks[other].c;
      Msg p; p.type = T_SIGNAL; p.set_str(F_PATH, 'o', "/p"); p.set_str(F_INTERFACE, 's', "com.vp.Probe"); p.set_str(F_MEMBER, 's', member); p.serial = h.bus.client(oc).serial++;
      h.bus.send_bytes(oc, encode_msg(p)); h.bus.pump();
      Out o; h.model.route(oc, p, o);
      for (auto& t : socks) if (t.state == 2) { auto g = h.bus.drain(t.c); std::string d = match_frames(g, o[t.c]); if (!d.empty()) h.fail(want_ok ? "probe-differs" : "refused-request-changed-state", "probe signal " + member + " at client" + std::to_string(t.c) + ": " + d + "\n" + show_frames(g)); Bus::free_frames(g); }
    } else if (k == 11) {
      if (rule_texts[si].empty()) continue;
      std::string text = rule_texts[si].back(); rule_texts[si].pop_back();
      MatchRule mr; std::string w; parse_match_rule(text, &mr, &w);
      RecvFrame r; std::vector<RecvFrame> oth;
      sync_call(h.bus, c, "RemoveMatch", {Value::str('s', text)}, &r, &oth);
      h.log.push_back("client" + std::to_string(c) + " RemoveMatch(" + mr.member + ")");
      if (!(r.valid && r.msg.type == T_RETURN) || !oth.empty()) h.fail("removematch", "RemoveMatch of a held rule failed");
      h.model.remove_match(c, mr);
      if (hit_limit) freed_after_hit = true;
    } else if (k <= 13) {
      // outstanding calls up to max_replies_per_connection; callee may answer
      int other = comp[pick(f, comp.size())]; int oc = socks[other].c;
      bool answer = f.ConsumeBool();
      std::vector<PendingReply> mine; for (auto& p : h.model.pending) if (p.callee == c) mine.push_back(p);
      Msg m; Out o;
      if (answer && !mine.empty()) {
        auto& p = mine[pick(f, mine.size())];
        m.type = T_RETURN; m.set_str(F_DESTINATION, 's', h.uniq(p.caller)); m.set_u32(F_REPLY_SERIAL, p.serial); m.serial = h.bus.client(c).serial++;
        h.log.push_back("client" + std::to_string(c) + " answers call " + std::to_string(p.serial) + " of client" + std::to_string(p.caller));
        if (hit_limit) freed_after_hit = true;
      } else {
        m.type = T_CALL; m.set_str(F_DESTINATION, 's', h.uniq(oc)); m.set_str(F_PATH, 'o', "/l"); m.set_str(F_MEMBER, 's', "Ask"); m.serial = h.bus.client(c).serial++;
        m.body.push_back(Value::str('s', "q" + std::to_string(++tok))); m.fix_signature();
        bool full = h.model.pending_of(c) >= max_replies;
        h.log.push_back("client" + std::to_string(c) + " calls client" + std::to_string(oc) + " -> model " + (full ? "LimitsExceeded" : "delivered") + " (pending " + std::to_string(h.model.pending_of(c)) + "/" + std::to_string(max_replies) + ")");
        if (full) hit_limit = true; else if (hit_limit && freed_after_hit) reused = true;
      }
      h.bus.send_bytes(c, encode_msg(m)); h.bus.pump();
      h.model.route(c, m, o);
      for (auto& t : socks) if (t.state == 2) { auto g = h.bus.drain(t.c); std::string d = match_frames(g, o[t.c]); if (!d.empty()) h.fail("frames-differ", "client" + std::to_string(t.c) + " after a call/reply: " + d + "\n  got:\n" + show_frames(g) + "  want:\n" + show_exps(o[t.c])); Bus::free_frames(g); }
    } else {
      // a message sized around max_message_size: only its sender is disconnected if it is too large
      int other = comp[pick(f, comp.size())]; int oc = socks[other].c;
      if (oc == c) continue;
      Msg m; m.type = T_SIGNAL; m.set_str(F_DESTINATION, 's', h.uniq(oc)); m.set_str(F_PATH, 'o', "/s"); m.set_str(F_INTERFACE, 's', "com.vp.Size"); m.set_str(F_MEMBER, 's', "Big"); m.serial = h.bus.client(c).serial++;
      m.body.push_back(Value::str('s', "")); m.fix_signature();
      size_t base = encode_msg(m).size();
      long target = max_msg - 8 + (long)pick(f, 17);   // limit-8 .. limit+8
      if ((long)base >= target) continue;
      m.body[0].s.assign((size_t)(target - (long)base), 'z');
      std::string bytes = encode_msg(m);
      bool too_big = (long)bytes.size() > max_msg;
      h.log.push_back("client" + std::to_string(c) + " sends a " + std::to_string(bytes.size()) + "-byte message to client" + std::to_string(oc) + " (limit " + std::to_string(max_msg) + ") -> model " + (too_big ? "sender disconnected" : "delivered"));
      h.bus.send_bytes(c, bytes); h.bus.pump();
      Out o;
      if (too_big) {
        auto g = h.bus.drain(c); Bus::free_frames(g);
        if (!h.bus.client(c).eof) h.fail("oversize-not-disconnected", "a message of " + std::to_string(bytes.size()) + " bytes (max_message_size " + std::to_string(max_msg) + ") did not get its sender disconnected");
        h.bus.close_client(c); h.model.disconnect(c, o); socks[si].state = 3; n_completed--; per_user[socks[si].uid_idx]--;
        if (hit_limit) freed_after_hit = true; hit_limit = true;
      } else h.model.route(c, m, o);
      for (auto& t : socks) if (t.state == 2) { auto g = h.bus.drain(t.c); if (h.bus.client(t.c).eof) h.fail("disconnected", "client" + std::to_string(t.c) + " was disconnected because of somebody else's message"); std::string d = match_frames(g, o[t.c]); if (!d.empty()) h.fail("frames-differ", "client" + std::to_string(t.c) + " after a sized message: " + d + "\n  got:\n" + show_frames(g) + "  want:\n" + show_exps(o[t.c])); Bus::free_frames(g); }
      serve_queue(); check_handshakes("after a sized message");
    }
    // invariant: model counters within limits (the model only ever admits what the limits allow; the comparisons above tie the bus to the model)
    if (n_completed > max_completed || n_incomplete > max_incomplete) h.fail("model-bug", "model exceeded a limit");
  }
  // final: registry agrees
  { auto comp = completed(); if (!comp.empty()) { std::vector<std::string> names(kNames, kNames + 4); std::string d = check_registry(h.bus, socks[comp[0]].c, h.model, names); if (!d.empty()) h.fail("registry-differs", d); } }
  bool nontrivial = hit_limit && freed_after_hit && reused;
  if (count) { stats_class(nontrivial ? "nontrivial" : (hit_limit ? "hit-limit-only" : "trivial")); stats_class(two_users ? "users:2" : "users:1"); }
  if (nontrivial && count) { std::string k = h.key(); uint64_t hh = fnv1a(k.data(), k.size()); stats_nontrivial(hh); if (stats_want_sample(hh)) stats_sample(hh, h.sample()); }
  return h.finish();
}

extern "C" int LLVMFuzzerTestOneInput(const uint8_t* data, size_t size) {
  stats_init("C13");
  stats_exec();
  auto r = run_history(data, size, true);
  if (r.first != 0 || r.second != 0) {
    auto r2 = run_history(data, size, false);
    if (r2.first != 0) violation("leak", "libdbus allocations outstanding after bus shutdown (repeatable): " + std::to_string(r2.first));
    if (r2.second != 0) violation("fd-leak", "descriptors still open after bus shutdown (repeatable): " + std::to_string(r2.second));
  }
  return 0;
}
