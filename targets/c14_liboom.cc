// C14 (library part) — an allocation failing anywhere inside one libdbus / bus
// library operation makes it report out-of-memory, leaves the object as it was,
// leaks nothing, and the retry succeeds.
// One case = (generated object, operation).  The operation is first run without
// injection (reference result), then once per k = 0,1,2,... with the k-th
// allocation failing, on a fresh copy of the object, until the countdown no longer
// fires.  Oracle per run: either failure is reported and the object marshals to
// the same bytes as before (and the operation then succeeds when repeated), or the
// result equals the reference; demarshal/parse report NoMemory and never a
// validity verdict that differs from the reference; outstanding libdbus blocks
// return to the level before the run.
#include "dbusx.h"
#include "gen.h"
#include "libwalk.h"
#include "bushelp.h"
#include "stats.h"
#include <unistd.h>
#include <functional>

extern "C" {
#include "bus/signals.h"
#include "bus/config-parser.h"
void _dbus_set_fail_alloc_counter(int until_next_fail);
int _dbus_get_fail_alloc_counter(void);
int _dbus_get_malloc_blocks_outstanding(void);
}

using namespace vp;

static std::string g_desc;
[[noreturn]] static void fail(const char* kind, int k, const std::string& what) { violation(kind, what + "\ncase: " + g_desc + "\nfailing allocation index k=" + std::to_string(k)); }

static bool inject(int k, const std::function<void()>& body) {
  _dbus_set_fail_alloc_counter(k);
  body();
  bool fired = _dbus_get_fail_alloc_counter() > (1 << 30);
  _dbus_set_fail_alloc_counter(0x7fffffff);
  return fired;
}

static DBusMessage* demarshal(const std::string& b) {
  DBusError e; dbus_error_init(&e);
  DBusMessage* m = dbus_message_demarshal(b.data(), (int)b.size(), &e);
  dbus_error_free(&e);
  return m;
}

// ---- message operations: op(m) returns true on success; `expect` = marshalled bytes of the reference result
struct MsgOp { std::string desc; std::function<bool(DBusMessage*)> run; bool is_append = false; };

static MsgOp gen_msg_op(FDP& f) {
  MsgOp op;
  int k = (int)pick(f, 12);
  if (k <= 5) {
    static const char* const names[] = {"destination", "path", "interface", "member", "error_name", "sender"};
    bool clear = rare(f, 5);
    std::string v = k == 0 ? (f.ConsumeBool() ? gen_wellknown(f) : gen_unique(f)) : k == 1 ? gen_path(f) : k == 2 ? gen_iface(f) : k == 3 ? gen_member(f) : k == 4 ? gen_iface(f) : gen_unique(f);
    if (rare(f, 4)) v = gen_name_of_len(f, k == 1 ? 'o' : k == 3 ? 'm' : k == 0 || k == 5 ? 'b' : 'i', 40 + pick(f, 200));   // long values force reallocation
    op.desc = std::string("set_") + names[k] + "(" + (clear ? "NULL" : v) + ")";
    op.run = [k, v, clear](DBusMessage* m) -> bool {
      const char* p = clear ? nullptr : v.c_str();
      switch (k) { case 0: return dbus_message_set_destination(m, p); case 1: return dbus_message_set_path(m, p); case 2: return dbus_message_set_interface(m, p);
                   case 3: return dbus_message_set_member(m, p); case 4: return dbus_message_set_error_name(m, p); default: return dbus_message_set_sender(m, p); }
    };
  } else if (k == 6) {
    uint32_t rs = 1 + (uint32_t)pick(f, 100000);
    op.desc = "set_reply_serial(" + std::to_string(rs) + ")";
    op.run = [rs](DBusMessage* m) -> bool { return dbus_message_set_reply_serial(m, rs); };
  } else if (k <= 9) {
    // append one basic value at the top level (a failed append must leave the message as it was)
    GenCfg g; g.allow_h = false;
    int n = 1;
    std::vector<Value> vals;
    for (int i = 0; i < n; i++) { static const char types[] = "ybnqiuxtdsog"; std::string t(1, types[pick(f, 12)]); vals.push_back(gen_value_of(f, g, t)); }
    op.desc = "append basic values"; for (auto& v : vals) op.desc += " " + v.show(40);
    op.is_append = true;
    op.run = [vals](DBusMessage* m) -> bool {
      // value by value: a failed append must leave the message as it was, so continuing from there is legitimate
      for (auto& v : vals) { DBusMessageIter it; dbus_message_iter_init_append(m, &it); if (!lib_append(&it, v, false)) return false; }
      return true;
    };
  } else {
    GenCfg g; g.allow_h = false; g.max_depth = 3;
    std::string sct; for (int tries = 0; tries < 8 && sct.size() <= 1; tries++) sct = gen_sct(f, g, 1);
    if (sct.size() <= 1) sct = "a(is)";   // (exhausted input yields basic types only)
    Value v = gen_value_of(f, g, sct);
    bool fixed = f.ConsumeBool();
    op.desc = "append container " + v.show(60);
    op.is_append = true;
    op.run = [v, fixed](DBusMessage* m) -> bool { DBusMessageIter it; dbus_message_iter_init_append(m, &it); return lib_append(&it, v, fixed); };
  }
  return op;
}

static void msg_case(FDP& f, int* fired_runs, int* failed_runs) {
  MsgCfg mc; mc.g.allow_h = false; mc.g.max_depth = 3; mc.max_body_vals = 3; mc.allow_fds_field = false; mc.allow_unknown_type = false;
  Msg init = gen_msg(f, mc);
  std::string bytes = encode_msg(init);
  int which = (int)pick(f, 8);
  // ---- copy / marshal / demarshal
  if (which >= 5) {
    g_desc = std::string(which == 5 ? "dbus_message_copy" : which == 6 ? "dbus_message_marshal" : "dbus_message_demarshal") + " of " + init.show();
    DBusMessage* ref = demarshal(bytes);
    if (!ref) return;   // (generator and library disagree on validity: C01's business)
    std::string s0; lib_marshal(ref, s0);
    std::string sres = s0;   // expected result bytes; a copy differs from its source (serial reset to 0 [D dbus_message_copy])
    if (which == 5) { DBusMessage* c = dbus_message_copy(ref); if (c) { lib_marshal(c, sres); dbus_message_unref(c); } }
    dbus_message_unref(ref);
    for (int k = 0; k < 4000; k++) {
      dbus_shutdown(); int b0 = _dbus_get_malloc_blocks_outstanding();
      DBusMessage* m = which == 7 ? nullptr : demarshal(bytes);
      DBusMessage* out = nullptr; char* buf = nullptr; int len = 0; dbus_bool_t ok = FALSE; DBusError e; dbus_error_init(&e);
      bool fired = inject(k, [&]() {
        if (which == 5) out = dbus_message_copy(m);
        else if (which == 6) ok = dbus_message_marshal(m, &buf, &len);
        else out = dbus_message_demarshal(bytes.data(), (int)bytes.size(), &e);
      });
      bool failed = which == 6 ? !ok : out == nullptr;
      if (failed && !fired) fail("spurious-failure", k, "the operation failed although no allocation failed");
      if (failed && which == 7 && !dbus_error_has_name(&e, DBUS_ERROR_NO_MEMORY)) fail("wrong-error", k, std::string("demarshalling valid bytes under memory pressure reported ") + (e.name ? e.name : "(no error)") + " instead of NoMemory");
      if (!failed) {
        std::string s1;
        if (which == 6) s1.assign(buf, len); else lib_marshal(out, s1);
        if (s1 != sres) fail("result-differs", k, "result differs from the run without injection:\n  got " + hex(s1, 200) + "\n  ref " + hex(sres, 200));
      }
      if (m) { std::string s2; lib_marshal(m, s2); if (s2 != s0) fail("source-changed", k, "the source message changed: " + hex(s2, 200)); dbus_message_unref(m); }
      if (out) dbus_message_unref(out);
      if (buf) dbus_free(buf);
      dbus_error_free(&e);
      if (fired) { (*fired_runs)++; if (failed) (*failed_runs)++; }
      dbus_shutdown();
      int b1 = _dbus_get_malloc_blocks_outstanding();
      if (b1 != b0) fail("leak", k, "libdbus blocks outstanding changed from " + std::to_string(b0) + " to " + std::to_string(b1));
      if (!fired) break;
    }
    return;
  }
  // ---- header edits / appends
  MsgOp op = gen_msg_op(f);
  g_desc = op.desc + " on " + init.show();
  DBusMessage* ref = demarshal(bytes);
  if (!ref) return;
  std::string s0, sref; lib_marshal(ref, s0);
  if (!op.run(ref)) { dbus_message_unref(ref); dbus_shutdown(); return; }
  lib_marshal(ref, sref);
  dbus_message_unref(ref);
  dbus_shutdown();
  for (int k = 0; k < 4000; k++) {
    dbus_shutdown(); int b0 = _dbus_get_malloc_blocks_outstanding();
    DBusMessage* m = demarshal(bytes);
    bool ok = false;
    bool fired = inject(k, [&]() { ok = op.run(m); });
    bool reported = !ok;
    if (!ok && !fired) fail("spurious-failure", k, "the operation failed although no allocation failed");
    bool check_state = true;
    if (!ok && op.is_append) {
      // Known finding C14-append-hoses-message: a failed append leaves the body and the SIGNATURE field out of step
      // (documented as a @todo: "the message is hosed and you have to start over").  Excluded by construction while open.
      std::string s1; bool same = lib_marshal(m, s1) && s1 == s0;
      if (!same) { if (kf_open("C14-append-hoses-message")) { kf_hit("C14-append-hoses-message"); check_state = false; } }
    }
    if (!ok && check_state) {
      std::string s1;
      if (!lib_marshal(m, s1)) fail("unmarshallable", k, "after the failed operation the message cannot be marshalled");
      if (s1 != s0) fail("state-changed", k, "the operation reported failure but the message changed:\n  before " + hex(s0, 240) + "\n  after  " + hex(s1, 240));
      if (!op.run(m)) fail("retry-fails", k, "the operation failed again with memory available");
      ok = true;
    }
    if (ok) {
      std::string s2; lib_marshal(m, s2);
      if (s2 != sref) fail("result-differs", k, "result differs from the run without injection:\n  got " + hex(s2, 240) + "\n  ref " + hex(sref, 240));
    }
    dbus_message_unref(m);
    if (fired) { (*fired_runs)++; if (reported) (*failed_runs)++; }
    dbus_shutdown();
    int b1 = _dbus_get_malloc_blocks_outstanding();
    if (b1 != b0) fail("leak", k, "libdbus blocks outstanding changed from " + std::to_string(b0) + " to " + std::to_string(b1));
    if (!fired) break;
  }
}

// ---- match rule parsing
static std::string gen_rule_text(FDP& f) {
  static const char* const parts[] = {"type='signal'", "type='method_call'", "sender='com.vp.A'", "sender=':1.5'", "interface='com.vp.I'", "member='M'", "path='/a/b'", "path_namespace='/a'", "destination=':1.7'",
    "arg0='x'", "arg1='it'\\''s'", "arg2path='/a/'", "arg0namespace='com.vp'", "arg63='end'", "eavesdrop='true'", "arg5=''", "bogus='1'", "arg64='x'", "interface='not valid'", "member", "arg0='unbalanced", "type='signal',type='signal'"};
  int n = (int)pick(f, 6); std::string s;
  for (int i = 0; i < n; i++) { if (i) s += ","; s += parts[rare(f, 5) ? 16 + pick(f, 6) : pick(f, 16)]; }
  if (rare(f, 8)) s += std::string(s.empty() ? "" : ",") + "arg7='" + std::string(200 + pick(f, 900), 'L') + "'";
  return s;
}

static void rule_case(FDP& f, int* fired_runs, int* failed_runs) {
  std::string text = gen_rule_text(f);
  g_desc = "bus_match_rule_parse(" + text.substr(0, 200) + ")";
  DStr t(text);
  DBusError e; dbus_error_init(&e);
  BusMatchRule* ref = bus_match_rule_parse(nullptr, &t.s, &e);
  std::string ref_err = e.name ? e.name : ""; dbus_error_free(&e);
  bool ref_ok = ref != nullptr;
  if (ref) bus_match_rule_unref(ref);
  dbus_shutdown();
  for (int k = 0; k < 4000; k++) {
    dbus_shutdown(); int b0 = _dbus_get_malloc_blocks_outstanding();
    bool fired;
    {
      DStr tt(text);
      BusMatchRule* r = nullptr; DBusError e2; dbus_error_init(&e2);
      fired = inject(k, [&]() { r = bus_match_rule_parse(nullptr, &tt.s, &e2); });
      std::string err = e2.name ? e2.name : ""; dbus_error_free(&e2);
      if (r) { if (!ref_ok) fail("verdict-differs", k, "an invalid rule (" + ref_err + ") was accepted under memory pressure"); bus_match_rule_unref(r); }
      else {
        if (err != DBUS_ERROR_NO_MEMORY && err != ref_err) fail("verdict-differs", k, "the rule is " + (ref_ok ? std::string("valid") : "rejected with " + ref_err) + " without injection but under memory pressure the error is " + err);
        if (err == DBUS_ERROR_NO_MEMORY && !fired) fail("spurious-failure", k, "NoMemory although no allocation failed");
        if (err == DBUS_ERROR_NO_MEMORY) (*failed_runs)++;
      }
      if (fired) (*fired_runs)++;
    }
    dbus_shutdown();
    int b1 = _dbus_get_malloc_blocks_outstanding();
    if (b1 != b0) fail("leak", k, "libdbus blocks outstanding changed from " + std::to_string(b0) + " to " + std::to_string(b1));
    if (!fired) break;
  }
}

// ---- configuration file parsing
static std::string gen_config(FDP& f) {
  vp::BusLimits lim;
  if (f.ConsumeBool()) lim.max_names = (long)pick(f, 100);
  if (f.ConsumeBool()) lim.reply_timeout = (long)pick(f, 100000);
  if (f.ConsumeBool()) lim.max_message_size = 1000 + (long)pick(f, 100000);
  static const char* const rules[] = {"<allow own=\"com.vp.A\"/>", "<deny own_prefix=\"com.vp\"/>", "<allow send_destination=\"com.vp.A\" send_interface=\"com.vp.I\"/>", "<deny send_type=\"signal\" send_member=\"M\"/>",
    "<allow receive_sender=\"com.vp.B\" receive_type=\"method_call\"/>", "<deny send_path=\"/a\" send_error=\"com.vp.E\"/>", "<allow user=\"*\"/>", "<deny group=\"0\"/>", "<allow send_requested_reply=\"true\" send_type=\"method_return\"/>",
    "<allow eavesdrop=\"true\"/>", "<deny send_broadcast=\"true\"/>", "<allow send_destination_prefix=\"com.vp\"/>", "<allow receive_requested_reply=\"false\" receive_type=\"error\"/>", "<deny bogus=\"1\"/>", "<allow/>"};
  std::string pol;
  int np = 1 + (int)pick(f, 3);
  for (int p = 0; p < np; p++) {
    static const char* const ctx[] = {"context=\"default\"", "context=\"mandatory\"", "user=\"0\"", "group=\"0\"", "at_console=\"true\""};
    pol += std::string("<policy ") + ctx[pick(f, 5)] + ">\n";
    int nr = (int)pick(f, 6);
    for (int i = 0; i < nr; i++) pol += std::string("  ") + rules[rare(f, 8) ? 13 + pick(f, 2) : pick(f, 13)] + "\n";
    pol += "</policy>\n";
  }
  std::string extra;
  if (rare(f, 3)) extra += "<servicedir>/nonexistent/vp/services</servicedir>\n";
  if (rare(f, 4)) extra += "<user>root</user>\n";
  if (rare(f, 4)) extra += "<fork/>\n";
  if (rare(f, 5)) extra += "<apparmor mode=\"disabled\"/>\n";
  if (rare(f, 6)) extra += "<includedir>/nonexistent/vp/conf.d</includedir>\n";
  if (rare(f, 6)) extra += "<syslog/><keep_umask/><allow_anonymous/>\n";
  if (rare(f, 10)) extra += "<unknown_element/>\n";
  std::string s = make_config(f.ConsumeBool() ? "session" : "system", pol, lim, extra);
  size_t a; while ((a = s.find("@ADDR@")) != std::string::npos) s.replace(a, 6, "unix:path=/nonexistent/vp-sock");
  return s;
}

static std::string snapshot(BusConfigParser* p) {
  ::BusLimits l; bus_config_parser_get_limits(p, &l);
  const char* t = bus_config_parser_get_type(p); const char* u = bus_config_parser_get_user(p);
  char buf[512];
  snprintf(buf, sizeof buf, "type=%s user=%s names=%d replies=%d msg=%ld reply_timeout=%d fork=%d nservicedirs=%d nlisten=%d", t ? t : "-", u ? u : "-", l.max_services_per_connection, l.max_replies_per_connection, l.max_message_size, l.reply_timeout,
           (int)bus_config_parser_get_fork(p), _dbus_list_get_length(bus_config_parser_get_service_dirs(p)), _dbus_list_get_length(bus_config_parser_get_addresses(p)));
  return buf;
}

static void config_case(FDP& f, int* fired_runs, int* failed_runs) {
  std::string text = gen_config(f);
  char path[256]; snprintf(path, sizeof path, "/tmp/vp-c14-%d.conf", (int)getpid());
  FILE* fp = fopen(path, "w"); if (!fp) return; fwrite(text.data(), 1, text.size(), fp); fclose(fp);
  g_desc = "bus_config_load of:\n" + text;
  std::string ref_snap, ref_err;
  {
    DStr file(path); DBusError e; dbus_error_init(&e);
    BusConfigParser* p = bus_config_load(&file.s, TRUE, nullptr, &e);
    if (p) { ref_snap = snapshot(p); bus_config_parser_unref(p); } else ref_err = e.name ? e.name : "?";
    dbus_error_free(&e);
  }
  dbus_shutdown();
  for (int k = 0; k < 20000; k++) {
    dbus_shutdown(); int b0 = _dbus_get_malloc_blocks_outstanding();
    {
      DStr file(path); DBusError e; dbus_error_init(&e);
      BusConfigParser* p = nullptr;
      bool fired = inject(k, [&]() { p = bus_config_load(&file.s, TRUE, nullptr, &e); });
      std::string err = e.name ? e.name : ""; std::string emsg = e.message ? e.message : ""; dbus_error_free(&e);
      if (p) {
        // Known finding C14-userdb-oom-looks-unknown: an allocation failing inside the user/group lookup of a
        // <policy user|group=...> block makes the parser skip the block ("Unknown group") instead of reporting NoMemory.
        bool userdb = text.find(" user=\"") != std::string::npos || text.find(" group=\"") != std::string::npos;
        bool excused = false;
        if (!ref_err.empty()) { if (userdb && kf_open("C14-userdb-oom-looks-unknown")) { kf_hit("C14-userdb-oom-looks-unknown"); excused = true; } else fail("verdict-differs", k, "a configuration rejected with " + ref_err + " was accepted under memory pressure"); }
        std::string s = snapshot(p); bus_config_parser_unref(p);
        if (!excused && s != ref_snap) fail("result-differs", k, "parsed configuration differs from the run without injection:\n  got " + s + "\n  ref " + ref_snap);
      } else {
        if (err != DBUS_ERROR_NO_MEMORY && err != ref_err) fail("verdict-differs", k, "without injection: " + (ref_err.empty() ? std::string("accepted") : ref_err) + "; under memory pressure: " + err + " (" + emsg + ")");
        if (err == DBUS_ERROR_NO_MEMORY && !fired) fail("spurious-failure", k, "NoMemory although no allocation failed");
        if (err == DBUS_ERROR_NO_MEMORY) (*failed_runs)++;
      }
      if (fired) (*fired_runs)++;
      if (!fired) k = 1 << 30;
    }
    dbus_shutdown();
    int b1 = _dbus_get_malloc_blocks_outstanding();
    if (b1 != b0) fail("leak", k, "libdbus blocks outstanding changed from " + std::to_string(b0) + " to " + std::to_string(b1));
    if (k >= (1 << 30)) break;
  }
  unlink(path);
}

extern "C" int LLVMFuzzerTestOneInput(const uint8_t* data, size_t size) {
  stats_init("C14");
  stats_exec();
  FDP f(data, size);
  int fired = 0, failed = 0;
  int kind = (int)pick(f, 10);
  const char* kn = kind <= 5 ? "message" : kind <= 7 ? "match-rule" : "config";
  if (kind <= 5) msg_case(f, &fired, &failed); else if (kind <= 7) rule_case(f, &fired, &failed); else config_case(f, &fired, &failed);
  stats_class(std::string("lib:") + kn);
  stats_class(std::string("lib-injected-runs:") + kn, fired);
  stats_class(std::string("lib-outcome-failure-reported:") + kn, failed);
  bool nontrivial = fired >= 3 && failed >= 1;
  stats_class(nontrivial ? "nontrivial" : "trivial");
  if (nontrivial) { uint64_t h = fnv1a(g_desc.data(), g_desc.size()); stats_nontrivial(h); if (stats_want_sample(h)) stats_sample(h, g_desc.substr(0, 300) + " ; allocations failed one at a time: " + std::to_string(fired) + " (" + std::to_string(failed) + " reported failure)"); }
  return 0;
}

#ifdef VP_ENUM
int main(int argc, char** argv) { return vp::enum_main(argc, argv); }
#endif
