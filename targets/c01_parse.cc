// C01 — untrusted bytes become a message only if spec-valid, and always safely.
// Oracle: engine/wire.cc (independent validator/decoder).  Entry points compared:
// DBusMessageLoader (whole buffer), dbus_message_demarshal,
// dbus_message_demarshal_bytes_needed; read-back through the public accessor /
// iterator API; re-marshal identity.  Safety: ASan/UBSan on exact-size copies.
#include "dbusx.h"
#include "gen.h"
#include "libwalk.h"
#include "stats.h"
#include <cstring>
#include <cstdlib>
#include <fcntl.h>
#include <unistd.h>

using namespace vp;

static const char* vname(Verdict v) { return v == Verdict::Valid ? "valid" : v == Verdict::Invalid ? "invalid" : "unspec"; }

struct Case { std::string bytes; int nfds = 0; std::string desc; std::string op1, op2; };

static void fail(const char* kind, const Case& c, const std::string& what) {
  violation(kind, what + "\ncase: " + c.desc + " ops=[" + c.op1 + "," + c.op2 + "] nfds=" + std::to_string(c.nfds) + " len=" + std::to_string(c.bytes.size()) + "\nbytes(hex)=" + hex(c.bytes, 200));
}

static char* exact_copy(const std::string& b) {
  // exact-size, 8-aligned heap block: any read past b.size() rounded up hits the redzone.
  size_t n = b.size() ? b.size() : 1;
  char* p = (char*)aligned_alloc(8, (n + 7) & ~(size_t)7);
  memcpy(p, b.data(), b.size());
  return p;
}

static void build_boundary(int which, bool be_, int variant, Case& c) {
  // large inputs at the limits; enumerated by the VP_ENUM front end because they are expensive
  Msg m; m.type = T_SIGNAL; m.serial = 9; m.be = be_;
  m.set_str(F_PATH, 'o', "/b"); m.set_str(F_INTERFACE, 's', "b.b"); m.set_str(F_MEMBER, 's', "B");
  c.desc = "boundary#" + std::to_string(which) + (be_ ? "BE" : "LE") + "v" + std::to_string(variant);
  switch (which) {
    case 0: case 1: {  // byte array of exactly 2^26 (valid) or 2^26+1 (invalid)
      size_t n = (1u << 26) + (which == 1 ? 1 : 0);
      Value a = Value::array("y");
      m.body.push_back(a); m.fix_signature();
      std::string enc = encode_msg(m);  // empty array: body = 4 bytes length
      // patch: array length n, body length 4+n
      bool be = m.be;
      auto wr = [&](size_t off, uint32_t v) { for (int i = 0; i < 4; i++) { int sh = be ? (3 - i) * 8 : i * 8; enc[off + i] = (char)((v >> sh) & 0xff); } };
      wr(enc.size() - 4, (uint32_t)n); wr(4, (uint32_t)(4 + n));
      enc.append(n, 'x');
      c.bytes = enc; break; }
    case 2: case 3: {  // total message length exactly 2^27 / 2^27+8 using two arrays
      size_t target = (1u << 27) + (which == 3 ? 8 : 0);
      m.body.push_back(Value::array("y")); m.body.push_back(Value::array("y")); m.fix_signature();
      std::string enc = encode_msg(m);
      size_t hl = enc.size() - 8;
      size_t room = target - hl - 8;  // bytes for both arrays' payloads, keep 4-alignment of second length word
      size_t n1 = (room / 2) & ~(size_t)3, n2 = room - n1;
      bool be = m.be;
      std::string body;
      auto put = [&](uint32_t v) { for (int i = 0; i < 4; i++) { int sh = be ? (3 - i) * 8 : i * 8; body += (char)((v >> sh) & 0xff); } };
      put((uint32_t)n1); body.append(n1, 'p'); put((uint32_t)n2); body.append(n2, 'q');
      enc.resize(hl);
      for (int i = 0; i < 4; i++) { int sh = be ? (3 - i) * 8 : i * 8; enc[4 + i] = (char)((body.size() >> sh) & 0xff); }
      enc += body; c.bytes = enc; break; }
    case 4: {  // a string of 1 MiB, valid UTF-8
      std::string s((1u << 20) + variant, 'u');
      m.body.push_back(Value::str('s', s)); m.fix_signature(); c.bytes = encode_msg(m); break; }
    default: {  // many small elements
      Value a = Value::array("(ys)");
      for (int i = 0; i < 20000; i++) { Value s = Value::strct(); s.kids.push_back(Value::basic('y', i & 255)); s.kids.push_back(Value::str('s', "e")); a.kids.push_back(s); }
      m.body.push_back(a); m.fix_signature(); c.bytes = encode_msg(m); break; }
  }
}

static void build_case(FDP& f, Case& c) {
  int mode = (int)f.ConsumeIntegralInRange<int>(0, 15);
  if (mode >= 12) {  // raw bytes: coverage-guided mutation of whatever the corpus holds
    c.nfds = (int)pick(f, 3);
    c.bytes = f.ConsumeRemainingBytesAsString();
    c.desc = "raw";
    return;
  }
  MsgCfg mc;
  Msg m = gen_msg(f, mc);
  int shape = (int)pick(f, 12);
  if (shape == 11) {  // value depth around the 64 limit
    int d = f.ConsumeIntegralInRange<int>(60, 68);
    m.body.clear(); m.body.push_back(gen_deep_variant_chain(f, d)); m.fix_signature();
    c.desc = "deep" + std::to_string(d) + " ";
  } else if (shape == 10) {  // signature nesting around 32
    int n = f.ConsumeIntegralInRange<int>(30, 33);
    m.body.clear(); m.body.push_back(gen_nested_array(n, f.ConsumeBool())); m.fix_signature();
    c.desc = "nest" + std::to_string(n) + " ";
  } else if (shape == 9) {  // names / signatures at the 255 limit
    size_t len = f.ConsumeIntegralInRange<size_t>(253, 257);
    switch (pick(f, 5)) {
      case 0: m.set_str(F_INTERFACE, 's', gen_name_of_len(f, 'i', len)); break;
      case 1: m.set_str(F_MEMBER, 's', gen_name_of_len(f, 'm', len)); break;
      case 2: m.set_str(F_DESTINATION, 's', gen_name_of_len(f, f.ConsumeBool() ? 'b' : 'u', len)); break;
      case 3: m.set_str(F_PATH, 'o', gen_name_of_len(f, 'o', len + 100)); break;
      default: { m.body.clear(); for (size_t i = 0; i < len && i < 255; i++) m.body.push_back(Value::basic('y', i)); m.fix_signature(); if (len > 255) m.set_str(F_SIGNATURE, 'g', std::string(len, 'y')); }
    }
    c.desc = "len" + std::to_string(len) + " ";
  } else if (shape == 8) {  // UNIX_FDS field vs. descriptors supplied
    m.set_u32(F_UNIX_FDS, (uint32_t)pick(f, 4));
    c.nfds = (int)pick(f, 4);
    c.desc = "fds ";
  } else if (shape == 7) {  // reserved Local path/interface and near misses
    static const char* ifs[] = {"org.freedesktop.DBus.Local", "org.freedesktop.DBus.Localx", "org.freedesktop.DBus.Local.x", "org.freedesktop.DBus.Loca", "org.freedesktop.DBus.LocalFoo.Bar"};
    static const char* ps[] = {"/org/freedesktop/DBus/Local", "/org/freedesktop/DBus/Localx", "/org/freedesktop/DBus/Local/x", "/org/freedesktop/DBus/Loca"};
    if (f.ConsumeBool()) m.set_str(F_INTERFACE, 's', ifs[pick(f, 5)]); else m.set_str(F_PATH, 'o', ps[pick(f, 4)]);
    c.desc = "local ";
  }
  if (rare(f, 3)) c.op1 = corrupt_struct(f, m);
  Layout lay;
  c.bytes = encode_msg(m, &lay);
  int ncor = (int)pick(f, 4);  // 0: valid, 1..2: one corruption, 3: two
  if (ncor >= 1) { std::string o = corrupt(f, c.bytes, lay); if (c.op1.empty()) c.op1 = o; else c.op2 = o; }
  if (ncor == 3) c.op2 = corrupt(f, c.bytes, lay);
  // sometimes a second (valid) frame follows: stream semantics
  if (rare(f, 6)) { Msg m2 = gen_msg(f, mc); c.bytes += encode_msg(m2); c.desc += "two-frames "; }
  c.desc += "structured " + m.show().substr(0, 300);
}

static void check_message(const Case& c, DBusMessage* msg, const Frame& fr, const char* entry) {
  // (3) re-marshal before any iteration is byte-identical to the frame
  std::string out;
  if (!lib_marshal(msg, out)) return;  // OOM only
  if (out != c.bytes.substr(fr.off, fr.len))
    fail("remarshal-differs", c, std::string(entry) + ": dbus_message_marshal of the accepted message differs from the input frame\nremarshal(hex)=" + hex(out, 600));
  // (2) read-back through the public API equals the independent decoding
  Msg lib; std::string why;
  if (!lib_to_msg(msg, lib, &why)) fail("readback-inconsistent", c, std::string(entry) + ": " + why);
  std::string d = diff_msgs(lib, fr.msg);
  if (!d.empty()) fail("readback-differs", c, std::string(entry) + ": " + d + "\noracle: " + fr.msg.show());
}

static int run_case(Case& c) {
  if (c.bytes.empty()) return 0;

  StreamResult R = decode_stream((const uint8_t*)c.bytes.data(), c.bytes.size(), c.nfds);
  bool unspec = R.tail_unspec;
  bool kf = unspec && R.reason.rfind("KF:", 0) == 0;
  if (kf) {
    if (kf_open("C16-unique-name-short")) { kf_hit("C16-unique-name-short"); }
    else { /* not listed as open: the oracle's verdict stands */ unspec = false; R.tail_unspec = false; R.final = St::Corrupt; R.reason = "bad sender/destination (short unique name)"; }
  }
  // statistics
  {
    bool nontrivial = false;
    bool bad;
    size_t dl = declared_length((const uint8_t*)c.bytes.data(), c.bytes.size(), &bad);
    nontrivial = c.bytes.size() >= 16 && !bad && dl <= c.bytes.size();  // fixed header passes the sanity check and the frame is complete: field and body validation run
    stats_class(std::string("mode:") + (c.desc.rfind("raw", 0) == 0 ? "raw" : c.desc.rfind("boundary", 0) == 0 ? "boundary" : "structured"));
    if (!c.op1.empty()) stats_class("op:" + c.op1);
    if (!c.op2.empty()) stats_class("op:" + c.op2);
    std::string verdict = unspec ? "unspec" : R.final == St::Corrupt ? "corrupt" : R.final == St::NeedMore ? "incomplete" : "valid-stream";
    stats_class("oracle:" + verdict);
    stats_class("frames:" + std::to_string(R.frames.size() > 3 ? 3 : R.frames.size()));
    if (R.final == St::Corrupt && !unspec) stats_class("reason:" + R.reason.substr(0, 48));
    if (nontrivial) {
      uint64_t h = fnv1a(c.bytes.data(), c.bytes.size());
      stats_nontrivial(h);
      if (stats_want_sample(h)) stats_sample(h, verdict + (R.reason.empty() ? "" : " (" + R.reason + ")") + " ops=[" + c.op1 + "," + c.op2 + "] " + c.desc.substr(0, 200) + " hex=" + hex(c.bytes, 96));
    }
  }

  // ---- entry point 1: bytes_needed
  {
    char* p = exact_copy(c.bytes);
    int need = dbus_message_demarshal_bytes_needed(p, (int)c.bytes.size());
    free(p);
    bool bad; size_t dl = declared_length((const uint8_t*)c.bytes.data(), c.bytes.size(), &bad);
    if (c.bytes.size() < 16) { if (need != 0) fail("bytes-needed", c, "bytes_needed != 0 for fewer than 16 bytes: " + std::to_string(need)); }
    else if (bad) { if (need != -1) fail("bytes-needed", c, "bytes_needed should be -1 (fixed header fails sanity) but is " + std::to_string(need)); }
    else if (c.bytes.size() <= (1u << 27)) { if (need != (int)dl) fail("bytes-needed", c, "bytes_needed=" + std::to_string(need) + " but header declares " + std::to_string(dl)); }
  }

  // ---- entry point 2: loader fed the whole buffer
  {
    DBusMessageLoader* L = _dbus_message_loader_new();
    if (!L) return 0;
    int fds_given[4]; int nf = 0;
    if (c.nfds > 0) {
      int* fdarr = nullptr; unsigned maxn = 0;
      if (_dbus_message_loader_get_unix_fds(L, &fdarr, &maxn)) {
        for (int i = 0; i < c.nfds && i < 4 && (unsigned)i < maxn; i++) { fdarr[i] = open("/dev/null", O_RDONLY | O_CLOEXEC); fds_given[nf++] = fdarr[i]; }
        _dbus_message_loader_return_unix_fds(L, fdarr, nf);
      }
    }
    (void)fds_given;
    DBusString* buf = nullptr;
    _dbus_message_loader_get_buffer(L, &buf, nullptr, nullptr);
    {
      // append from an exact-size copy so that the loader cannot see beyond the input
      char* p = exact_copy(c.bytes);
      dbus_bool_t ok = _dbus_string_append_len(buf, p, (int)c.bytes.size());
      free(p);
      if (!ok) { _dbus_message_loader_return_buffer(L, buf); _dbus_message_loader_unref(L); return 0; }
    }
    _dbus_message_loader_return_buffer(L, buf);
    if (!_dbus_message_loader_queue_messages(L)) { _dbus_message_loader_unref(L); return 0; }  // OOM
    bool corrupted = _dbus_message_loader_get_is_corrupted(L);
    size_t popped = 0;
    DBusMessage* msg;
    while ((msg = _dbus_message_loader_pop_message(L)) != nullptr) {
      if (popped < R.frames.size()) check_message(c, msg, R.frames[popped], "loader");
      else if (!unspec) { dbus_message_unref(msg); fail("accepted-invalid", c, "loader produced message #" + std::to_string(popped + 1) + " but the independent validator stops after " + std::to_string(R.frames.size()) + " frames: " + vname(Verdict::Invalid) + " (" + R.reason + ")"); }
      dbus_message_unref(msg);
      popped++;
    }
    if (popped < R.frames.size())
      fail("rejected-valid", c, "loader produced " + std::to_string(popped) + " messages, independent decoder finds " + std::to_string(R.frames.size()) + " valid frames first; loader corrupted=" + std::to_string(corrupted) + " reason=" + std::to_string((int)_dbus_message_loader_get_corruption_reason(L)));
    if (!unspec) {
      if (R.final == St::Corrupt && !corrupted) fail("accepted-invalid", c, "stream is corrupt per the specification (" + R.reason + ") but the loader does not flag corruption");
      if (R.final == St::End && corrupted) fail("rejected-valid", c, "stream is entirely valid but the loader flags corruption, reason=" + std::to_string((int)_dbus_message_loader_get_corruption_reason(L)));
      if (R.final == St::NeedMore) {
        if (R.must_corrupt && !corrupted) fail("accepted-invalid", c, "incomplete tail whose fixed header already fails the sanity check was not flagged");
        if (!R.may_corrupt && !R.must_corrupt && corrupted) fail("rejected-valid", c, "incomplete tail with a sane fixed header flagged as corrupt, reason=" + std::to_string((int)_dbus_message_loader_get_corruption_reason(L)));
      }
    }
    _dbus_message_loader_unref(L);
  }

  // ---- entry point 3: dbus_message_demarshal (no descriptors can accompany it)
  if (c.bytes.size() < (1u << 27)) {
    StreamResult R0 = c.nfds == 0 ? R : decode_stream((const uint8_t*)c.bytes.data(), c.bytes.size(), 0);
    bool unspec0 = R0.tail_unspec;
    if (unspec0 && R0.reason.rfind("KF:", 0) == 0 && !kf_open("C16-unique-name-short")) { unspec0 = false; R0.final = St::Corrupt; }
    char* p = exact_copy(c.bytes);
    DBusError e; dbus_error_init(&e);
    DBusMessage* msg = dbus_message_demarshal(p, (int)c.bytes.size(), &e);
    free(p);
    bool oom = !msg && dbus_error_has_name(&e, DBUS_ERROR_NO_MEMORY);
    if (msg) {
      if (R0.frames.empty()) { if (!unspec0) fail("accepted-invalid", c, std::string("dbus_message_demarshal returned a message; independent validator: ") + R0.reason); }
      else {
        if (!unspec0 && R0.final == St::Corrupt) fail("accepted-invalid", c, "dbus_message_demarshal returned a message although the stream is corrupt after the first frame (" + R0.reason + ")");
        Case c0 = c; check_message(c0, msg, R0.frames[0], "demarshal");
      }
      dbus_message_unref(msg);
    } else {
      if (!R0.frames.empty() && !unspec0 && R0.final != St::Corrupt && !(R0.final == St::NeedMore && (R0.may_corrupt || R0.must_corrupt)))
        fail("rejected-valid", c, std::string("dbus_message_demarshal returned NULL (") + (e.message ? e.message : "") + ") for a stream that starts with a valid frame");
      if (dbus_error_is_set(&e) == FALSE) fail("error-contract", c, "dbus_message_demarshal returned NULL without setting the error");
      (void)oom;
    }
    dbus_error_free(&e);
  }
  return 0;
}

#ifdef VP_ENUM
// usage: c01_parse_enum <shard> <nshards>   |   --replay <file: which be variant>
int main(int argc, char** argv) {
  stats_init("C01");
  if (argc == 3 && !strcmp(argv[1], "--replay")) {
    FILE* fp = fopen(argv[2], "r"); if (!fp) return 2;
    int w, b, v; if (fscanf(fp, "%d %d %d", &w, &b, &v) != 3) return 2; fclose(fp);
    Case c; build_boundary(w, b, v, c); stats_exec(); run_case(c); return 0;
  }
  if (argc == 4 && !strcmp(argv[1], "--mkseeds")) {
    // deterministic seed corpus: valid generated messages wrapped as raw-mode inputs, plus generator inputs
    int n = atoi(argv[3]); uint64_t x = 0x9e3779b97f4a7c15ull;
    for (int i = 0; i < n; i++) {
      std::string rnd; size_t len = 200 + (i * 37) % 1200;
      for (size_t k = 0; k < len; k++) { x ^= x << 13; x ^= x >> 7; x ^= x << 17; rnd += (char)(x >> 32); }
      std::string out;
      if (i % 2 == 0) { FDP f((const uint8_t*)rnd.data(), rnd.size()); MsgCfg mc; Msg m = gen_msg(f, mc); out = encode_msg(m); out += (char)0; out += (char)12; }
      else { out = rnd; out.back() = (char)(i % 12); }
      std::string path = std::string(argv[2]) + "/seed" + std::to_string(i);
      FILE* fp = fopen(path.c_str(), "wb"); if (!fp) return 2; fwrite(out.data(), 1, out.size(), fp); fclose(fp);
    }
    return 0;
  }
  int shard = argc > 1 ? atoi(argv[1]) : 0, nshards = argc > 2 ? atoi(argv[2]) : 1;
  int idx = 0;
  for (int which = 0; which < 6; which++) for (int be = 0; be < 2; be++) for (int variant = 0; variant < (which == 4 ? 4 : 1); variant++) {
    if (idx++ % nshards != shard) continue;
    Case c; build_boundary(which, be, variant, c);
    set_case_blob(std::to_string(which) + " " + std::to_string(be) + " " + std::to_string(variant) + "\n");
    stats_exec();
    run_case(c);
  }
  stats_flush();
  return 0;
}
#else
extern "C" int LLVMFuzzerTestOneInput(const uint8_t* data, size_t size) {
  stats_init("C01");
  stats_exec();
  FDP f(data, size);
  Case c;
  build_case(f, c);
  return run_case(c);
}
#endif
