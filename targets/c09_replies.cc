// C09 — only the addressee of a pending call can answer it, once.
// Restrictive (system-bus-like) policy: calls and signals allowed, replies only
// if requested.  Histories of calls (fresh / reused serials, NO_REPLY), genuine,
// duplicate, wrong-serial, third-party replies, closes of caller or callee, the
// per-connection pending-reply limit and (virtual) time passing beyond
// reply_timeout.  Oracle: busmodel.cc's reply-slot model; batches are checked by
// the belief-set serialisation search.
#include "dbusx.h"
#include "gen.h"
#include "bushelp.h"
#include "stats.h"
#include <unistd.h>

using namespace vp;

static const char* const kPolicy =
  "<policy context=\"default\">\n"
  "  <allow user=\"*\"/>\n"
  "  <allow own=\"*\"/>\n"
  "  <allow send_type=\"method_call\"/>\n"
  "  <allow send_type=\"signal\"/>\n"
  "  <allow send_type=\"method_return\"/>\n"      /* send_requested_reply defaults to true: only requested replies */
  "  <allow send_type=\"error\"/>\n"
  "  <allow receive_type=\"method_call\"/>\n"
  "  <allow receive_type=\"signal\"/>\n"
  "  <allow receive_type=\"method_return\"/>\n"
  "  <allow receive_type=\"error\"/>\n"
  "</policy>\n";

static std::pair<long, int> run_history(const uint8_t* data, size_t size, bool count) {
  FDP f(data, size);
  Hist h("C09");
  BusLimits lim;
  bool finite = f.ConsumeBool();
  if (finite) lim.reply_timeout = 10000;
  int maxrep = rare(f, 2) ? 1 + (int)pick(f, 3) : -1;
  if (maxrep > 0) lim.max_replies = maxrep;
  h.start(make_config("", kPolicy, lim));
  h.model.replies_must_be_requested = true;
  h.model.reply_timeout_ms = finite ? 10000 : -1;
  if (maxrep > 0) h.model.max_replies = maxrep;
  int nclients = 3 + (int)pick(f, 2);
  for (int i = 0; i < nclients; i++) h.add_client();
  h.own(1, "com.vp.Svc", 0);
  int bystander = h.add_client(); h.add_rule(bystander, "type='signal'"); h.add_rule(bystander, "type='method_return'"); h.add_rule(bystander, "type='error'");
  int total = (int)h.bus.nclients();
  Belief B; B.init(h.model, total);
  std::vector<bool> lazy(total, false);
  uint32_t tok = 0;
  bool had_call = false, nontrivial = false;
  int nsteps = 3 + (int)pick(f, 18);

  auto mk_send = [&](int c, const Msg& m, const std::string& what) {
    BOp op; op.c = c;
    std::string bytes = encode_msg(m);
    op.write = [c, bytes](Bus& b) { b.send_bytes(c, bytes); };
    op.apply = [c, m](BusModel& mod, Out& o) { mod.route(c, m, o); };
    op.desc = "client" + std::to_string(c) + " " + what + ": " + frame_brief(m);
    return op;
  };

  for (int step = 0; step < nsteps; step++) {
    int bsize = rare(f, 3) ? 2 + (int)pick(f, 2) : 1;
    std::vector<BOp> ops;
    for (int b = 0; b < bsize; b++) {
      int c = (int)pick(f, nclients);
      int k = (int)pick(f, 12);
      if (k == 11 && finite && bsize == 1) {
        long ms = f.ConsumeBool() ? 4000 : 7000;
        BOp op; op.c = -1; op.write = [ms](Bus& bus) { bus.advance(ms); };
        op.apply = [ms](BusModel& mod, Out& o) { mod.advance(ms, o); };
        op.desc = "clock advances " + std::to_string(ms) + " ms";
        ops.push_back(op); break;
      }
      if (!h.open(c)) continue;
      bool closed = false; for (auto& o : ops) if (o.c == c && o.desc.find("closes") != std::string::npos) closed = true;
      if (closed) continue;
      if (k <= 3) {
        // method call; serial fresh or reusing one that may be outstanding
        Msg m; m.type = T_CALL; m.be = f.ConsumeBool();
        m.flags = rare(f, 5) ? 1 : 0;
        int t = (int)pick(f, nclients);
        std::string dest = rare(f, 4) ? "com.vp.Svc" : h.uniq(t);
        m.set_str(F_DESTINATION, 's', dest); m.set_str(F_PATH, 'o', "/r"); m.set_str(F_MEMBER, 's', "Ask");
        m.body.push_back(Value::str('s', "ask-" + std::to_string(++tok))); m.fix_signature();
        uint32_t& next = h.bus.client(c).serial;
        if (rare(f, 5) && next > 3) m.serial = next - 1 - (uint32_t)pick(f, 2); else m.serial = next++;
        ops.push_back(mk_send(c, m, "calls"));
        had_call = true;
      } else if (k <= 8) {
        // a reply: legitimate (to an open slot of some candidate state), duplicate, wrong serial, third party
        Msg m; m.type = f.ConsumeBool() ? T_RETURN : T_ERROR; m.be = f.ConsumeBool();
        if (m.type == T_ERROR) m.set_str(F_ERROR_NAME, 's', "com.vp.Failed");
        const BusModel& mod = B.cands[0].m;
        int how = (int)pick(f, 5);
        std::string to; uint32_t rs;
        std::vector<PendingReply> mine, others;
        for (auto& p : mod.pending) { if (p.callee == c) mine.push_back(p); else others.push_back(p); }
        const char* kind = "unsolicited";
        if (how <= 1 && !mine.empty()) { auto& p = mine[pick(f, mine.size())]; to = h.uniq(p.caller); rs = p.serial; kind = "genuine"; }
        else if (how == 2 && !others.empty()) { auto& p = others[pick(f, others.size())]; to = h.uniq(p.caller); rs = p.serial; kind = "third-party"; }          // somebody else's call
        else if (how == 3 && !mine.empty()) { auto& p = mine[pick(f, mine.size())]; to = h.uniq((p.caller + 1) % nclients); rs = p.serial; kind = "to-third-party"; } // right serial, wrong addressee
        else if (how == 4 && !mine.empty()) { auto& p = mine[pick(f, mine.size())]; to = h.uniq(p.caller); rs = p.serial + 1 + (uint32_t)pick(f, 3); kind = "wrong-serial"; }
        else { to = h.uniq((int)pick(f, nclients)); rs = 1 + (uint32_t)pick(f, 12); }
        m.set_str(F_DESTINATION, 's', to); m.set_u32(F_REPLY_SERIAL, rs);
        m.body.push_back(Value::str('s', "ans-" + std::to_string(++tok))); m.fix_signature();
        m.serial = h.bus.client(c).serial++;
        if (rare(f, 6)) m.flags = 1;
        ops.push_back(mk_send(c, m, std::string("replies (") + kind + ")"));
        if (had_call && strcmp(kind, "genuine") != 0) nontrivial = true;
        if (rare(f, 4)) { Msg d = m; d.serial = h.bus.client(c).serial++; ops.push_back(mk_send(c, d, "replies again (duplicate)")); if (had_call) nontrivial = true; }
      } else if (k == 9) {
        Msg m; m.type = T_SIGNAL; m.set_str(F_PATH, 'o', "/r"); m.set_str(F_INTERFACE, 's', "com.vp.R"); m.set_str(F_MEMBER, 's', "Note");
        if (f.ConsumeBool()) m.set_str(F_DESTINATION, 's', h.uniq((int)pick(f, nclients)));
        m.set_u32(F_REPLY_SERIAL, 1 + (uint32_t)pick(f, 12));   // a non-reply carrying REPLY_SERIAL must not disturb slots
        m.del(F_REPLY_SERIAL);                                    // (out of this target's domain: DESIGN C09 "out of domain")
        m.body.push_back(Value::str('s', "sig-" + std::to_string(++tok))); m.fix_signature();
        m.serial = h.bus.client(c).serial++;
        ops.push_back(mk_send(c, m, "signals"));
      } else if (k == 10 && nclients > 3) {
        BOp op; op.c = c; op.write = [c](Bus& b) { b.close_client(c); };
        op.apply = [c](BusModel& mod, Out& o) { mod.disconnect(c, o); };
        op.desc = "client" + std::to_string(c) + " (" + h.uniq(c) + ") closes";
        ops.push_back(op);
      }
    }
    if (ops.empty()) continue;
    if (ops.size() > 1) h.log.push_back("--- batch of " + std::to_string(ops.size()) + " written before the bus runs:");
    std::string d = B.step(h, ops, lazy);
    if (B.overflow) { if (count) stats_class("belief-overflow"); return h.finish(); }
    if (!d.empty()) h.fail("no-serialisation-explains-observation", d);
    // invariant: nobody holds more slots than the limit
    if (maxrep > 0) for (auto& cand : B.cands) for (int i = 0; i < nclients; i++) if (cand.m.pending_of(i) > maxrep) h.fail("model-bug", "model exceeded its own limit");
  }
  // end: every still-open slot whose callee is alive stays open; let all time pass and check that exactly the NoReply errors appear
  if (finite) {
    BOp op; op.c = -1; op.write = [](Bus& bus) { bus.advance(25000); };
    op.apply = [](BusModel& mod, Out& o) { mod.advance(25000, o); };
    op.desc = "clock advances 25000 ms (everything still pending expires)";
    std::string d = B.step(h, {op}, lazy);
    if (!d.empty()) h.fail("expiry-differs", d);
    for (auto& cand : B.cands) if (!cand.m.pending.empty()) h.fail("model-bug", "slots left after final expiry");
  }
  if (count) { stats_class(nontrivial ? "nontrivial" : "trivial"); stats_class(finite ? "timeout:finite" : "timeout:never"); stats_class(maxrep > 0 ? "limit:small" : "limit:default"); }
  if (nontrivial && count) { std::string k = h.key(); uint64_t hh = fnv1a(k.data(), k.size()); stats_nontrivial(hh); if (stats_want_sample(hh)) stats_sample(hh, h.sample()); }
  return h.finish();
}

extern "C" int LLVMFuzzerTestOneInput(const uint8_t* data, size_t size) {
  stats_init("C09");
  stats_exec();
  auto r = run_history(data, size, true);
  if (r.first != 0 || r.second != 0) {
    auto r2 = run_history(data, size, false);
    if (r2.first != 0) violation("leak", "libdbus allocations outstanding after bus shutdown (repeatable): " + std::to_string(r2.first));
    if (r2.second != 0) violation("fd-leak", "descriptors still open after bus shutdown (repeatable): " + std::to_string(r2.second));
  }
  return 0;
}
