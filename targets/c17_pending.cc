// C17 — every call awaiting a reply completes exactly once.
// A real private DBusConnection talks to a scripted raw peer over a socketpair;
// the harness owns the main loop (timeout functions) and the clock (virtual).
// Histories: send_with_reply with short/long/default/infinite timeouts, replies
// in any order, duplicated, for unknown serials, split across writes; time passing;
// cancel; block; dispatch; notify set before/after; peer close.
// Oracle: per-call model {pending -> completed(reply | NoReply) | cancelled}.
#include "dbusx.h"
#include "gen.h"
#include "rawpeer.h"
#include "stats.h"
#include <climits>
#include <map>
#include <set>
#include <algorithm>
#include <cstring>
#include <atomic>
#include <chrono>
#include <thread>

using namespace vp;

struct Call {
  DBusPendingCall* p = nullptr; uint32_t serial = 0; long due = -1;   // due: virtual ms at which it times out, -1 = never
  bool cancelled = false; bool done = false; int kind = 0;            // kind: 1 reply, 2 error reply, 3 timeout, 4 disconnected
  std::string token; int notified = 0; bool notify_set = false; bool notify_set_while_pending = false;
  bool stolen = false;
  bool tq = false;   // its timeout has fired (the NoReply error is queued) but the connection has not dispatched since
};
static std::vector<Call>* g_calls;
static std::vector<std::string> g_log;
static std::vector<uint32_t>* g_filtered;   // reply serials of replies that reached ordinary dispatch
static void fail(const char* kind, const std::string& what) { std::string s; for (auto& l : g_log) s += "  " + l + "\n"; violation(kind, what + "\nhistory:\n" + s); }

static void on_notify(DBusPendingCall* p, void* ud) {
  size_t idx = (size_t)(uintptr_t)ud;
  (*g_calls)[idx].notified++;
  if ((*g_calls)[idx].p != p) fail("notify-wrong-call", "notify invoked with a different pending call object");
}
static DBusHandlerResult on_filter(DBusConnection*, DBusMessage* m, void*) {
  int t = dbus_message_get_type(m);
  if (getenv("VP_TRACE")) fprintf(stderr, "filter: type %d rs %u after '%s'\n", t, dbus_message_get_reply_serial(m), g_log.empty() ? "" : g_log.back().c_str());
  if (t == DBUS_MESSAGE_TYPE_METHOD_RETURN || t == DBUS_MESSAGE_TYPE_ERROR) g_filtered->push_back(dbus_message_get_reply_serial(m));
  return DBUS_HANDLER_RESULT_NOT_YET_HANDLED;
}

// ---- watchdog: dbus_pending_call_block is only invoked when the model says it terminates (a reply is there, the peer
// is gone, or the call has a finite timeout under the virtual clock, where waiting costs no real time)
static std::atomic<long> g_block_start{0};
static long real_s() { return (long)std::chrono::duration_cast<std::chrono::seconds>(std::chrono::steady_clock::now().time_since_epoch()).count(); }
static void watchdog_start() {
  static bool started = false; if (started) return; started = true;
  std::thread([] { for (;;) { std::this_thread::sleep_for(std::chrono::milliseconds(250)); long b = g_block_start.load(); if (b && real_s() - b > 30) fail("block-hang", "dbus_pending_call_block did not return within 30 s of real time although the call must complete (reply available, peer closed, or finite timeout under the virtual clock)"); } }).detach();
}

// ---- harness main loop: timeouts under the virtual clock
struct TO { DBusTimeout* t; long added; };
static std::vector<TO>* g_timeouts;
static long vnow() { long s, us; _dbus_get_monotonic_time(&s, &us); return s * 1000 + us / 1000; }
static dbus_bool_t add_to(DBusTimeout* t, void*) { g_timeouts->push_back({t, vnow()}); return TRUE; }
static void rem_to(DBusTimeout* t, void*) { for (size_t i = 0; i < g_timeouts->size(); i++) if ((*g_timeouts)[i].t == t) { g_timeouts->erase(g_timeouts->begin() + i); return; } }
static void tog_to(DBusTimeout* t, void*) { for (auto& x : *g_timeouts) if (x.t == t) x.added = vnow(); }
static void run_timeouts() {
  bool again = true; int guard = 0;
  while (again && guard++ < 100) {
    again = false;
    for (size_t i = 0; i < g_timeouts->size(); i++) {
      TO x = (*g_timeouts)[i];
      if (dbus_timeout_get_enabled(x.t) && vnow() - x.added >= dbus_timeout_get_interval(x.t)) { (*g_timeouts)[i].added = vnow(); dbus_timeout_handle(x.t); again = true; break; }
    }
  }
}

extern "C" int LLVMFuzzerTestOneInput(const uint8_t* data, size_t size) {
  stats_init("C17");
  stats_exec();
  FDP f(data, size);
  g_log.clear();
  std::vector<Call> calls; calls.reserve(64); g_calls = &calls;
  std::vector<uint32_t> filtered; g_filtered = &filtered;
  std::vector<TO> timeouts; g_timeouts = &timeouts;
  RawPeer peer;
  DBusConnection* c = peer.connect();
  if (!c) return 0;
  dbus_connection_set_timeout_functions(c, add_to, rem_to, tog_to, nullptr, nullptr);
  dbus_connection_add_filter(c, on_filter, nullptr, nullptr);
  std::set<uint32_t> serials_seen;
  std::map<uint32_t, int> peer_knows;       // serial -> how many replies the peer already wrote for it
  std::vector<uint32_t> written_unpumped;   // reply serials written by the peer but not yet read by the connection
  bool peer_open = true; bool nontrivial = false; uint32_t tok = 0; uint32_t last_serial = 0;
  std::vector<uint32_t> expected_filtered;  // multiset of reply serials that must reach ordinary dispatch
  std::vector<uint32_t> optional_filtered;  // queued timeout errors of calls cancelled before the next dispatch: may or may not be seen as ordinary messages

  auto outstanding = [&]() { int n = 0; for (auto& x : calls) if (!x.done && !x.cancelled) n++; return n; };
  auto complete = [&](Call& x, int kind, const std::string& token) { x.done = true; x.kind = kind; x.token = token; };
  // the connection reads what the peer wrote and dispatches: replies pair with the pending call of that serial
  auto model_pump = [&]() {
    for (auto& x : calls) if (x.tq && !x.done && !x.cancelled) complete(x, 3, "");   // queued timeout errors come first in the incoming queue
    for (uint32_t rs : written_unpumped) {
      bool paired = false;
      for (auto& x : calls) if (x.serial == rs && !x.done && !x.cancelled) { complete(x, 1, ""); paired = true; break; }
      if (!paired) expected_filtered.push_back(rs);
    }
    written_unpumped.clear();
    if (!peer_open) for (auto& x : calls) if (!x.done && !x.cancelled) complete(x, 4, "");
  };
  auto model_time = [&]() { long now = vnow(); for (auto& x : calls) if (!x.done && !x.cancelled && x.due >= 0 && now >= x.due) x.tq = true; };
  // the harness main loop: due timeouts are handled (each queues its NoReply error), then the connection reads and dispatches
  auto settle = [&](int iters = 200) { run_timeouts(); model_time(); pump_connection(c, iters); model_pump(); };
  auto check_all = [&](const char* when) {
    for (size_t i = 0; i < calls.size(); i++) {
      Call& x = calls[i];
      if (!x.p) continue;
      bool comp = dbus_pending_call_get_completed(x.p);
      if (x.cancelled) { if (x.notified > x.notify_set_while_pending * 0 && x.notified != 0 && !x.done) fail("cancelled-call-notified", std::string(when) + ": call #" + std::to_string(i) + " (serial " + std::to_string(x.serial) + ") was cancelled but its notify ran"); continue; }
      if (comp != x.done) fail("completion-state", std::string(when) + ": call #" + std::to_string(i) + " (serial " + std::to_string(x.serial) + ") get_completed=" + std::to_string(comp) + " but the model says " + (x.done ? "completed" : "pending"));
      if (x.notify_set_while_pending) { int want = x.done ? 1 : 0; if (x.notified != want) fail("notify-count", std::string(when) + ": call #" + std::to_string(i) + " notify ran " + std::to_string(x.notified) + " times, expected " + std::to_string(want)); }
    }
    std::multiset<uint32_t> a(filtered.begin(), filtered.end()), b(expected_filtered.begin(), expected_filtered.end());
    for (uint32_t o : optional_filtered) if (a.count(o) > b.count(o)) b.insert(o);
    if (a != b) { std::string sa, sb; for (auto v : a) sa += std::to_string(v) + " "; for (auto v : b) sb += std::to_string(v) + " "; fail("reply-routing", std::string(when) + ": replies that reached ordinary dispatch [" + sa + "] but the model expects [" + sb + "] (a reply must pair with the pending call of its serial and with nothing else)"); }
  };

  int nops = 3 + (int)pick(f, 26);
  for (int step = 0; step < nops; step++) {
    int k = (int)pick(f, 16);
    if (k <= 3 && calls.size() < 40) {
      if (!peer_open) continue;
      DBusMessage* m = dbus_message_new_method_call("com.vp.Peer", "/p", "com.vp.I", "Ask");
      if (!m) continue;
      int tk = (int)pick(f, 8);
      // 0 = times out as soon as the main loop runs; -1 = default (25 s); INT_MAX = never; large finite values are taken as given
      int timeout = tk == 0 ? 1000 : tk == 1 ? 6000 : tk == 2 ? -1 : tk == 3 ? INT_MAX : tk == 4 ? 30000 : tk == 5 ? 0 : tk == 6 ? 2000000000 : 1 + (int)pick(f, 90000);
      DBusPendingCall* p = nullptr;
      long t0 = vnow();
      if (!dbus_connection_send_with_reply(c, m, &p, timeout) || !p) { dbus_message_unref(m); continue; }
      Call x; x.p = p; x.serial = dbus_message_get_serial(m);
      x.due = timeout == INT_MAX ? -1 : t0 + (timeout == -1 ? 25000 : timeout);
      dbus_message_unref(m);
      if (x.serial == 0) fail("serial-zero", "a sent message was assigned serial 0");
      last_serial = x.serial;
      if (!serials_seen.insert(x.serial).second) fail("serial-reused", "serial " + std::to_string(x.serial) + " assigned twice");
      calls.push_back(x);
      size_t idx = calls.size() - 1;
      if (f.ConsumeBool()) { if (dbus_pending_call_set_notify(p, on_notify, (void*)(uintptr_t)idx, nullptr)) { calls[idx].notify_set = true; calls[idx].notify_set_while_pending = true; } }
      g_log.push_back("call #" + std::to_string(idx) + " serial " + std::to_string(x.serial) + " timeout " + (timeout == INT_MAX ? "never" : std::to_string(timeout == -1 ? 25000 : timeout) + "ms") + (calls[idx].notify_set ? " +notify" : ""));
      pump_connection(c, 3);   // flush the call to the peer
      { auto fr = peer.read_frames(); for (auto& y : fr) if (y.valid && y.msg.type == T_CALL && y.msg.serial != 0) peer_knows[y.msg.serial] += 0; }
      model_pump(); settle(3);   // a zero timeout queues its error as soon as the main loop runs and completes the call at the next dispatch
    } else if (k <= 6) {
      if (!peer_open || calls.empty()) continue;
      // the peer writes a reply: for one of the calls (any order), a duplicate, or an unknown serial; whole or split
      int how = (int)pick(f, 6);
      uint32_t rs;
      if (how <= 3) rs = calls[pick(f, calls.size())].serial; else if (how == 4) rs = 90000 + (uint32_t)pick(f, 5); else rs = calls[pick(f, calls.size())].serial;
      Msg m; m.type = f.ConsumeBool() ? T_RETURN : T_ERROR; if (m.type == T_ERROR) m.set_str(F_ERROR_NAME, 's', "com.vp.Failed");
      m.set_u32(F_REPLY_SERIAL, rs); m.serial = 5000 + ++tok; m.set_str(F_SENDER, 's', ":1.9");
      m.body.push_back(Value::str('s', "r" + std::to_string(tok))); m.fix_signature();
      std::string bytes = encode_msg(m);
      if (peer_knows[rs] > 0 && outstanding() >= 1) nontrivial = true;   // duplicate
      peer_knows[rs]++;
      bool split = f.ConsumeBool();
      g_log.push_back("peer writes " + std::string(m.type == T_RETURN ? "return" : "error") + " for serial " + std::to_string(rs) + (split ? " (split in two writes)" : ""));
      if (split) { size_t cut = 1 + pick(f, bytes.size() - 1); peer.write_bytes(bytes.substr(0, cut)); pump_connection(c, 3); model_pump(); peer.write_bytes(bytes.substr(cut)); } else peer.write_bytes(bytes);
      written_unpumped.push_back(rs);
      // out-of-order: a reply for a call that is not the oldest outstanding one
      for (auto& x : calls) { if (!x.done && !x.cancelled) { if (x.serial != rs && outstanding() >= 2) nontrivial = true; break; } }
      if (f.ConsumeBool()) { pump_connection(c); model_pump(); settle(); }
    } else if (k == 7) {
      long ms = rare(f, 3) ? 26000 : rare(f, 10) ? 2100000000L : (long)(500 + pick(f, 6) * 1500);
      bool no_dispatch = rare(f, 3);   // the timeouts are handled but the application does not get to dispatch before the next operation
      g_log.push_back("clock advances " + std::to_string(ms) + " ms" + (written_unpumped.empty() ? "" : " (with " + std::to_string(written_unpumped.size()) + " replies written but unread)") + (no_dispatch ? "; timeouts handled, no dispatch yet" : ""));
      if (!written_unpumped.empty() && outstanding() >= 2) nontrivial = true;
      vclock_advance(ms);
      if (no_dispatch) { run_timeouts(); model_time(); }
      else { settle(); settle(); }   // the harness loop handles due timeouts first, then lets the connection read
    } else if (k == 8) {
      if (calls.empty()) continue;
      size_t i = pick(f, calls.size()); Call& x = calls[i];
      if (x.cancelled || x.stolen) continue;
      g_log.push_back("cancel call #" + std::to_string(i) + (x.done ? " (already completed)" : ""));
      g_log.back() += x.tq && !x.done ? " (its timeout error is queued, not yet dispatched)" : "";
      dbus_pending_call_cancel(x.p);
      if (!x.done) { x.cancelled = true; if (x.tq) { optional_filtered.push_back(x.serial); nontrivial = true; } if (!written_unpumped.empty() && outstanding() >= 1) nontrivial = true; }
    } else if (k == 9) {
      if (calls.empty()) continue;
      size_t i = pick(f, calls.size()); Call& x = calls[i];
      if (x.cancelled) continue;
      if (!x.done && x.due < 0 && std::find(written_unpumped.begin(), written_unpumped.end(), x.serial) == written_unpumped.end() && peer_open) continue;   // would block forever: nobody answers and it never times out
      g_log.push_back("block on call #" + std::to_string(i) + " (serial " + std::to_string(x.serial) + ")");
      // model: everything written is read; this call completes with its reply if one is there, else by timeout at its due time
      bool have = std::find(written_unpumped.begin(), written_unpumped.end(), x.serial) != written_unpumped.end();
      watchdog_start(); g_block_start = real_s();
      dbus_pending_call_block(x.p);
      g_block_start = 0;
      if (!x.done && x.tq) complete(x, 3, "");   // its queued timeout error is the first message in the queue with this reply serial
      if (!x.done) { if (have || !peer_open) { model_pump(); } else { model_pump(); if (!x.done) complete(x, peer_open ? 3 : 4, ""); } }
      else model_pump();
      if (!dbus_pending_call_get_completed(x.p)) fail("block-returned-incomplete", "dbus_pending_call_block returned but the call is not completed");
      settle();
    } else if (k == 10) {
      g_log.push_back("dispatch");
      pump_connection(c); model_pump(); settle();
    } else if (k == 11) {
      if (calls.empty()) continue;
      size_t i = pick(f, calls.size()); Call& x = calls[i];
      if (x.notify_set || x.cancelled) continue;
      if (dbus_pending_call_set_notify(x.p, on_notify, (void*)(uintptr_t)i, nullptr)) { x.notify_set = true; x.notify_set_while_pending = !x.done; }
      g_log.push_back("set_notify on call #" + std::to_string(i) + (x.done ? " (after completion)" : ""));
    } else if (k == 12) {
      if (calls.empty()) continue;
      size_t i = pick(f, calls.size()); Call& x = calls[i];
      if (!x.done || x.stolen || x.cancelled) continue;
      DBusMessage* r = dbus_pending_call_steal_reply(x.p);
      x.stolen = true;
      g_log.push_back("steal_reply of call #" + std::to_string(i));
      if (!r) fail("steal-null", "completed call has no reply to steal");
      if (dbus_message_get_reply_serial(r) != x.serial) fail("reply-paired-with-wrong-call", "call serial " + std::to_string(x.serial) + " completed with a message whose reply serial is " + std::to_string(dbus_message_get_reply_serial(r)));
      bool local = x.kind == 3 || x.kind == 4;
      int t = dbus_message_get_type(r);
      if (local) { const char* en = dbus_message_get_error_name(r); if (t != DBUS_MESSAGE_TYPE_ERROR || !en || (strcmp(en, DBUS_ERROR_NO_REPLY) && strcmp(en, DBUS_ERROR_DISCONNECTED) && strcmp(en, DBUS_ERROR_TIMEOUT))) fail("local-error-wrong", std::string("call that timed out / lost its connection completed with ") + (en ? en : "a non-error")); }
      else { const char* snd = dbus_message_get_sender(r); if (!snd || strcmp(snd, ":1.9")) fail("reply-not-from-peer", "call completed by a reply that the peer did not write"); }
      dbus_message_unref(r);
    } else if (k >= 14) {
      // dbus_connection_send_with_reply_and_block: the peer cannot answer while the only thread is blocked, so its answer
      // (if any) is written beforehand for the serial the call is going to get (serials are handed out sequentially)
      if (!peer_open) continue;
      uint32_t predicted = last_serial + 1;
      int mode = (int)pick(f, 4);   // 0 return waiting, 1 error waiting, 2 nothing, 3 only a reply for some other serial
      int timeout = mode <= 1 ? (rare(f, 2) ? INT_MAX : rare(f, 2) ? -1 : 1000) : rare(f, 4) ? -1 : 1 + (int)pick(f, 60000);
      long eff = timeout == -1 ? 25000 : timeout;
      std::string token = "sb" + std::to_string(++tok);
      bool dup = false;
      if (mode <= 1 || mode == 3) {
        Msg m; m.type = mode == 1 ? T_ERROR : T_RETURN; if (m.type == T_ERROR) m.set_str(F_ERROR_NAME, 's', "com.vp.Failed");
        m.set_u32(F_REPLY_SERIAL, mode == 3 ? 90000 + (uint32_t)pick(f, 5) : predicted); m.serial = 5000 + tok; m.set_str(F_SENDER, 's', ":1.9");
        m.body.push_back(Value::str('s', token)); m.fix_signature();
        peer.write_bytes(encode_msg(m));
        if (mode == 3) written_unpumped.push_back(m.fu32(F_REPLY_SERIAL));
        else if (rare(f, 4)) { dup = true; m.serial = 7000 + tok; peer.write_bytes(encode_msg(m)); }
      }
      g_log.push_back(std::string("send_with_reply_and_block, timeout ") + (timeout == INT_MAX ? "never" : std::to_string(eff) + "ms") + "; waiting at the peer: " + (mode == 0 ? "return" : mode == 1 ? "error" : mode == 2 ? "nothing" : "a reply for another serial") + (dup ? " (twice)" : ""));
      if (outstanding() >= 1) nontrivial = true;
      DBusMessage* m = dbus_message_new_method_call("com.vp.Peer", "/p", "com.vp.I", "AskSync");
      if (!m) continue;
      DBusError e; dbus_error_init(&e);
      long t0 = vnow();
      watchdog_start(); g_block_start = real_s();
      DBusMessage* r = dbus_connection_send_with_reply_and_block(c, m, timeout, &e);
      g_block_start = 0;
      long waited = vnow() - t0;
      uint32_t got = dbus_message_get_serial(m);
      dbus_message_unref(m);
      if (got != predicted) { if (r) dbus_message_unref(r); dbus_error_free(&e); stats_class("harness:serial-misprediction"); break; }   // harness assumption, not part of the property
      last_serial = got;
      if (!serials_seen.insert(got).second) fail("serial-reused", "serial " + std::to_string(got) + " assigned twice");
      if (dup) written_unpumped.push_back(predicted);   // the second copy pairs with nothing
      if (mode == 0) {
        if (!r) fail("sync-call-lost-reply", std::string("a method return was waiting but the blocking call failed with ") + (e.name ? e.name : "no error"));
        const char* got_tok = nullptr;
        if (dbus_message_get_type(r) != DBUS_MESSAGE_TYPE_METHOD_RETURN || dbus_message_get_reply_serial(r) != got || !dbus_message_get_args(r, nullptr, DBUS_TYPE_STRING, &got_tok, DBUS_TYPE_INVALID) || token != got_tok)
          fail("sync-call-wrong-reply", "the blocking call returned a message that is not the reply written for it (reply serial " + std::to_string(dbus_message_get_reply_serial(r)) + ", expected " + std::to_string(got) + ")");
      } else if (mode == 1) {
        if (r || !dbus_error_has_name(&e, "com.vp.Failed")) fail("sync-call-wrong-reply", std::string("an error reply com.vp.Failed was waiting but the blocking call ") + (r ? "returned a message" : std::string("failed with ") + (e.name ? e.name : "nothing")));
      } else {
        if (r) fail("sync-call-wrong-reply", "nothing was written for this call but it returned a message with reply serial " + std::to_string(dbus_message_get_reply_serial(r)));
        if (!dbus_error_has_name(&e, DBUS_ERROR_NO_REPLY) && !dbus_error_has_name(&e, DBUS_ERROR_TIMEOUT)) fail("local-error-wrong", std::string("unanswered blocking call failed with ") + (e.name ? e.name : "nothing"));
        if (waited < eff) fail("sync-call-early-timeout", "unanswered blocking call with a timeout of " + std::to_string(eff) + " ms gave up after " + std::to_string(waited) + " ms");
      }
      if (r) dbus_message_unref(r);
      dbus_error_free(&e);
      peer.read_frames();   // the peer reads the call: closing a socket with unread data would reset the connection and legitimately lose what the other side has not read yet
      model_pump(); settle();
    } else {
      if (!peer_open) continue;
      g_log.push_back("peer closes its socket (" + std::to_string(outstanding()) + " calls outstanding)");
      if (outstanding() >= 1) nontrivial = true;
      peer.read_frames();   // orderly close: nothing unread on the peer's side (else the kernel signals a reset and unread replies may be dropped)
      peer.close_peer(); peer_open = false;
      pump_connection(c); model_pump(); settle();
    }
    if (getenv("VP_TRACE")) { fprintf(stderr, "step %d: %s | filtered=%zu unpumped=%zu inbuf-eof=%d\n", step, g_log.empty() ? "" : g_log.back().c_str(), filtered.size(), written_unpumped.size(), (int)peer.eof); for (size_t i = 0; i < calls.size(); i++) fprintf(stderr, "   call %zu serial %u completed=%d model-done=%d cancelled=%d notified=%d\n", i, calls[i].serial, (int)dbus_pending_call_get_completed(calls[i].p), (int)calls[i].done, (int)calls[i].cancelled, calls[i].notified); }
    check_all(g_log.empty() ? "" : g_log.back().c_str());
  }
  // end: let everything finite time out, then every non-cancelled call with a finite timeout (or a dead peer) is completed exactly once
  vclock_advance(40000); settle(); settle();
  g_log.push_back("end: 40 s pass");
  check_all("at the end");
  stats_class(nontrivial ? "nontrivial" : "trivial");
  stats_class("calls:" + std::to_string(calls.size() > 6 ? 6 : calls.size()));
  if (nontrivial) { std::string key; for (auto& l : g_log) key += l + "|"; uint64_t h = fnv1a(key.data(), key.size()); stats_nontrivial(h); if (stats_want_sample(h)) { std::string s; for (auto& l : g_log) s += l + "; "; stats_sample(h, s); } }
  for (auto& x : calls) if (x.p) { if (!x.done && !x.cancelled) dbus_pending_call_cancel(x.p); dbus_pending_call_unref(x.p); }
  peer.close_peer();
  dbus_connection_remove_filter(c, on_filter, nullptr);
  pump_connection(c, 5);
  dbus_connection_close(c);
  dbus_connection_unref(c);
  dbus_shutdown();
  return 0;
}
