// C07 — broadcasts reach exactly the connections whose match rules match.
// Histories of AddMatch / RemoveMatch / disconnect on 2-4 raw clients of an
// in-process bus, crossed with broadcast signals whose header fields and leading
// arguments come from the same small pools as the rule values.  Oracle:
// engine/matchmodel.cc (parser + matcher from the specification).
#include "dbusx.h"
#include "gen.h"
#include "bushelp.h"
#include "stats.h"
#include <unistd.h>
#include <algorithm>

using namespace vp;

static std::vector<std::string> g_log;
static void fail(const char* kind, const std::string& what) {
  std::string s;
  for (auto& l : g_log) s += "  " + l + "\n";
  violation(kind, what + "\nhistory:\n" + s);
}

static const char* const kIf[] = {"com.vp.If", "com.vp.If2", "com.vp", "org.freedesktop.DBus"};
static const char* const kMem[] = {"Sig", "Sig2", "S", "NameOwnerChanged"};
static const char* const kPath[] = {"/", "/a", "/a/b", "/a/bc", "/a/b/c", "/ab", "/org/freedesktop/DBus"};
static const char* const kArg[] = {"", "/", "/a", "/a/", "/a/b", "/a/b/", "/a/bb", "com.vp", "com.vp.x", "com.vpx", "x", "it's", ",", "\\", "a,b='c'", " "};
static const char* const kNs[] = {"com", "com.vp", "com.vp.x", "com.v"};

// one value in a generated quoting style; all styles denote the same string  [S quoting paragraph]
static std::string quote(FDP& f, const std::string& v) {
  int style = (int)pick(f, 4);
  std::string out;
  if (style == 0) {  // single quoted section, apostrophes as '\''
    out = "'";
    for (char c : v) { if (c == '\'') out += "'\\''"; else out += c; }
    return out + "'";
  }
  if (style == 1) {  // unquoted where possible
    for (char c : v) { if (c == '\'') out += "\\'"; else if (c == ',') out += "','"; else out += c; }
    return out;
  }
  if (style == 2) {  // every character its own quoted section
    for (char c : v) { if (c == '\'') out += "\\'"; else { out += '\''; out += c; out += '\''; } }
    if (v.empty()) out = "''";
    return out;
  }
  // split in two sections: first quoted, rest unquoted
  size_t cut = v.empty() ? 0 : pick(f, v.size() + 1);
  out = "'";
  for (size_t i = 0; i < cut; i++) { if (v[i] == '\'') out += "'\\''"; else out += v[i]; }
  out += "'";
  for (size_t i = cut; i < v.size(); i++) { char c = v[i]; if (c == '\'') out += "\\'"; else if (c == ',') out += "','"; else out += c; }
  return out;
}

struct GenRule { std::string text; std::string what; };

// Unicast traffic (driver calls and their replies) is out of this target's scope, but a client holding an
// eavesdrop='true' rule legitimately receives copies of it [S eavesdropping]: drop frames addressed to somebody else
// if (and only if) the receiving client holds such a rule.  Broadcasts (no DESTINATION) are never dropped.
static void drop_eavesdropped(std::vector<RecvFrame>& fr, const MConn& mcn) {
  bool eaves = false; for (auto& r : mcn.rules) if (r.eavesdrop) eaves = true;
  if (!eaves) return;
  for (size_t i = 0; i < fr.size();) { if (fr[i].valid && fr[i].msg.has(F_DESTINATION) && fr[i].msg.fstr(F_DESTINATION) != mcn.unique) { for (int fd : fr[i].fds) close(fd); fr.erase(fr.begin() + i); } else i++; }
}

static GenRule gen_rule(FDP& f, const std::vector<std::string>& senders) {
  GenRule g;
  std::vector<std::pair<std::string, std::string>> kv;
  if (rare(f, 3)) { static const char* t[] = {"signal", "method_call", "method_return", "error"}; kv.push_back({"type", t[rare(f, 4) ? pick(f, 4) : 0]}); }
  if (rare(f, 3)) kv.push_back({"sender", senders[pick(f, senders.size())]});
  if (rare(f, 3)) kv.push_back({"interface", kIf[pick(f, 4)]});
  if (rare(f, 3)) kv.push_back({"member", kMem[pick(f, 4)]});
  int pk = (int)pick(f, 5);
  if (pk == 3) kv.push_back({"path", kPath[pick(f, 7)]});
  if (pk == 4) kv.push_back({"path_namespace", kPath[pick(f, 7)]});
  if (rare(f, 8)) kv.push_back({"destination", senders[pick(f, senders.size())]});
  if (rare(f, 6)) kv.push_back({"eavesdrop", f.ConsumeBool() ? "true" : "false"});
  int nargs = (int)pick(f, 4);
  bool used[64] = {false};
  static const int idx[] = {0, 1, 2, 9, 10, 63};
  for (int i = 0; i < nargs; i++) {
    int n = idx[pick(f, 6)];
    if (used[n]) continue;
    used[n] = true;
    int kind = (int)pick(f, 3);
    if (kind == 0) kv.push_back({"arg" + std::to_string(n), kArg[pick(f, 16)]});
    else if (kind == 1) kv.push_back({"arg" + std::to_string(n) + "path", kArg[pick(f, 16)]});
    else if (n == 0) kv.push_back({"arg0namespace", kNs[pick(f, 4)]});
    else kv.push_back({"arg" + std::to_string(n), kArg[pick(f, 16)]});
  }
  for (size_t i = kv.size(); i > 1; i--) std::swap(kv[i - 1], kv[pick(f, i)]);
  for (size_t i = 0; i < kv.size(); i++) { if (i) g.text += ","; g.text += kv[i].first + "=" + quote(f, kv[i].second); }
  // mutants
  int mut = rare(f, 4) ? 1 + (int)pick(f, 14) : 0;
  switch (mut) {
    case 1: g.text += (g.text.empty() ? "" : ",") + std::string("arg0='unbalanced"); break;
    case 2: g.text += (g.text.empty() ? "" : ",") + std::string("bogus='x'"); break;
    case 3: g.text += (g.text.empty() ? "" : ",") + std::string("interface='not an interface'"); break;
    case 4: g.text += (g.text.empty() ? "" : ",") + std::string("member"); break;
    case 5: g.text += (g.text.empty() ? "" : ",") + std::string("arg64='x'"); break;
    case 6: g.text += (g.text.empty() ? "" : ",") + std::string("arg1namespace='com.vp'"); break;
    case 7: g.text += (g.text.empty() ? "" : ",") + std::string("path='/a',path_namespace='/a'"); break;
    case 8: g.text += (g.text.empty() ? "" : ",") + std::string("type='signal',type='signal'"); break;
    case 9: g.text += (g.text.empty() ? "" : ",") + std::string("eavesdrop='maybe'"); break;
    case 10: g.text += (g.text.empty() ? "" : ",") + std::string("path='/a/'"); break;
    case 11: g.text += (g.text.empty() ? "" : ",") + std::string("arg3path=''"); break;          // empty argNpath value (valid)
    case 12: { size_t target = 1023 + pick(f, 4); std::string pre = g.text + (g.text.empty() ? "" : ",") + "arg5='"; if (pre.size() + 1 < target) g.text = pre + std::string(target - pre.size() - 1, 'L') + "'"; break; }  // length 1023..1026
    case 13: g.text += (g.text.empty() ? "" : ",") + std::string("sender=':not valid'"); break;
    case 14: g.text += (g.text.empty() ? "" : ",") + std::string("arg0namespace='.x'"); break;
    default: break;
  }
  g.what = mut ? "mutant" + std::to_string(mut) : "grammar";
  return g;
}

static std::pair<long, int> run_history(const uint8_t* data, size_t size, bool count) {
  FDP f(data, size);
  g_log.clear();
  Bus bus;
  BusLimits lim;
  std::string err;
  if (!bus.start(make_config("session", "", lim), &err)) { fprintf(stderr, "bus start failed: %s\n", err.c_str()); _exit(2); }
  BusModel model;
  int nclients = 2 + (int)pick(f, 3);
  std::vector<int> cl, mc;
  for (int i = 0; i < nclients; i++) {
    int c = bus.connect_raw();
    if (!bus.auth(c)) fail("setup", "client authentication failed");
    cl.push_back(c); mc.push_back(model.add_conn());
    std::string u = bus.hello(c);
    if (u.empty()) fail("setup", "Hello failed");
    Out o; model.hello(mc[i], u, 0, o);
    g_log.push_back("client" + std::to_string(i) + " = " + u);
  }
  // client0 owns a well-known name so that sender='<well-known>' rules are meaningful
  { RecvFrame r; std::vector<RecvFrame> oth; sync_call(bus, cl[0], "RequestName", {Value::str('s', "com.vp.Owner"), Value::basic('u', 0)}, &r, &oth); Bus::free_frames(oth);
    Out o; std::string e; model.request_name(mc[0], "com.vp.Owner", 0, 0, o, &e); g_log.push_back("client0 owns com.vp.Owner"); }
  for (int i = 0; i < nclients; i++) { auto fr = bus.drain(cl[i]); Bus::free_frames(fr); }
  std::vector<std::string> senders = {"com.vp.Owner", "org.freedesktop.DBus", "com.vp.Nobody"};
  for (int i = 0; i < nclients; i++) senders.push_back(bus.client(cl[i]).unique);
  std::vector<std::vector<std::string>> texts(nclients);  // rule texts accepted per client (for RemoveMatch by same text)

  bool nontrivial = false;
  int nops = nclients * 2 + 2 + (int)pick(f, 22);
  for (int step = 0; step < nops; step++) {
    int i = (int)pick(f, nclients);
    if (!bus.client(cl[i]).open()) continue;
    int op = (int)pick(f, 10);
    if (step < nclients * 2) { op = 0; i = step % nclients; if (!bus.client(cl[i]).open()) continue; }   // warm-up: every client gets rules before traffic starts
    if (op <= 3) {
      GenRule g = gen_rule(f, senders);
      MatchRule mr; std::string why;
      RuleParse pr = parse_match_rule(g.text, &mr, &why);
      if (pr == RuleParse::Unspec) { if (count) stats_class("rule:unspec"); continue; }
      RecvFrame r; std::vector<RecvFrame> oth;
      g_log.push_back("client" + std::to_string(i) + " AddMatch \"" + g.text.substr(0, 200) + "\" (" + g.what + ") -> model " + (pr == RuleParse::Ok ? "ok" : pr == RuleParse::TooLong ? "too long" : "invalid: " + why));
      sync_call(bus, cl[i], "AddMatch", {Value::str('s', g.text)}, &r, &oth);
      { MConn tmp = model.conns[mc[i]]; if (pr == RuleParse::Ok) tmp.rules.push_back(mr); drop_eavesdropped(oth, tmp); }
      if (!oth.empty()) fail("extra-frames", "AddMatch produced frames other than its reply:\n" + show_frames(oth));
      if (!r.valid) fail("no-reply", "AddMatch was not answered");
      if (count) stats_class(std::string("addmatch:") + (pr == RuleParse::Ok ? "valid" : pr == RuleParse::TooLong ? "toolong" : "invalid"));
      if (pr == RuleParse::Ok) {
        if (r.msg.type != T_RETURN) fail("addmatch-rejected", "grammatical rule rejected with " + r.msg.fstr(F_ERROR_NAME));
        model.add_match(mc[i], mr); texts[i].push_back(g.text);
      } else if (pr == RuleParse::TooLong) {
        if (!(r.msg.type == T_ERROR && r.msg.fstr(F_ERROR_NAME) == "org.freedesktop.DBus.Error.LimitsExceeded")) fail("addmatch-toolong", "rule longer than 1024 bytes answered with " + (r.msg.type == T_ERROR ? r.msg.fstr(F_ERROR_NAME) : std::string("success")));
      } else {
        if (!(r.msg.type == T_ERROR && r.msg.fstr(F_ERROR_NAME) == "org.freedesktop.DBus.Error.MatchRuleInvalid")) fail("addmatch-accepted-invalid", "ungrammatical rule (" + why + ") answered with " + (r.msg.type == T_ERROR ? r.msg.fstr(F_ERROR_NAME) : std::string("success")));
      }
    } else if (op == 4) {
      // RemoveMatch: same text, an equivalent text (requoted), or a never-added rule
      int how = (int)pick(f, 4);
      std::string text;
      if (how == 3 && !texts[i].empty()) {
        // near miss: a held rule with exactly one value changed to another value of the same kind -- must NOT be found
        MatchRule m0; std::string w0;
        if (parse_match_rule(texts[i][pick(f, texts[i].size())], &m0, &w0) == RuleParse::Ok) {
          std::vector<int> present; if (m0.has_path) present.push_back(0); if (m0.has_path_ns) present.push_back(1); if (m0.has_member) present.push_back(2); if (m0.has_iface) present.push_back(3); if (!m0.args.empty()) present.push_back(4); if (!m0.argpaths.empty()) present.push_back(5); if (m0.has_arg0ns) present.push_back(6); if (m0.type) present.push_back(7); if (m0.has_sender) present.push_back(8); present.push_back(9);
          // same index, same value, other key flavour (argN <-> argNpath): a different rule
          if (!m0.args.empty() && !m0.argpaths.count(m0.args.begin()->first)) { present.push_back(10); present.push_back(10); }
          if (!m0.argpaths.empty() && !m0.args.count(m0.argpaths.begin()->first)) { present.push_back(11); present.push_back(11); }
          switch (present[pick(f, present.size())]) {
            case 0: m0.path = kPath[pick(f, 7)]; break; case 1: m0.path_ns = kPath[pick(f, 7)]; break; case 2: m0.member = kMem[pick(f, 4)]; break; case 3: m0.iface = kIf[pick(f, 4)]; break;
            case 4: m0.args.begin()->second = kArg[pick(f, 16)]; break; case 5: m0.argpaths.begin()->second = kArg[pick(f, 16)]; break; case 6: m0.arg0ns = kNs[pick(f, 4)]; break;
            case 7: m0.type = 1 + (int)pick(f, 4); break; case 8: m0.sender = senders[pick(f, senders.size())]; break;
            case 10: { auto kv = *m0.args.begin(); m0.args.erase(m0.args.begin()); m0.argpaths[kv.first] = kv.second; break; }
            case 11: { auto kv = *m0.argpaths.begin(); m0.argpaths.erase(m0.argpaths.begin()); m0.args[kv.first] = kv.second; break; }
            default: m0.eavesdrop = !m0.eavesdrop; break;
          }
          text = render_rule(m0);
        }
      }
      if (!text.empty()) {} else
      if (how < 2 && !texts[i].empty()) {
        text = texts[i][pick(f, texts[i].size())];
        if (how == 1) { MatchRule mr0; std::string w; if (parse_match_rule(text, &mr0, &w) == RuleParse::Ok && mr0.args.empty() && mr0.argpaths.empty()) { /* re-render with different key order */ std::string t2; if (mr0.has_member) t2 += "member='" + mr0.member + "',"; if (mr0.has_iface) t2 += "interface=" + mr0.iface + ","; if (mr0.type) t2 += std::string("type='") + (mr0.type == 4 ? "signal" : mr0.type == 1 ? "method_call" : mr0.type == 2 ? "method_return" : "error") + "',"; if (mr0.has_path) t2 += "path=" + mr0.path + ","; if (mr0.has_path_ns) t2 += "path_namespace='" + mr0.path_ns + "',"; if (mr0.has_sender) t2 += "sender=" + mr0.sender + ","; if (mr0.has_dest) t2 += "destination=" + mr0.dest + ","; if (mr0.has_arg0ns) t2 += "arg0namespace=" + mr0.arg0ns + ","; if (mr0.eavesdrop) t2 += "eavesdrop=true,"; if (!t2.empty()) t2.pop_back(); text = t2; } }
      } else text = gen_rule(f, senders).text;
      MatchRule mr; std::string why;
      RuleParse pr = parse_match_rule(text, &mr, &why);
      if (pr == RuleParse::Unspec) continue;
      MConn before_rm = model.conns[mc[i]];
      // [U] a rule naming a departed unique name: the bus may already have dropped it
      if (pr == RuleParse::Ok) { bool dead = false; for (int j = 0; j < nclients; j++) if (!bus.client(cl[j]).open() && ((mr.has_sender && mr.sender == bus.client(cl[j]).unique) || (mr.has_dest && mr.dest == bus.client(cl[j]).unique))) dead = true; if (dead) continue; }
      bool removed = pr == RuleParse::Ok && model.remove_match(mc[i], mr);
      g_log.push_back("client" + std::to_string(i) + " RemoveMatch \"" + text.substr(0, 200) + "\" -> model " + (pr != RuleParse::Ok ? "invalid/too long" : removed ? "removed" : "not found"));
      RecvFrame r; std::vector<RecvFrame> oth;
      sync_call(bus, cl[i], "RemoveMatch", {Value::str('s', text)}, &r, &oth);
      drop_eavesdropped(oth, before_rm);
      if (!r.valid) fail("no-reply", "RemoveMatch was not answered");
      if (!oth.empty()) fail("extra-frames", "RemoveMatch was answered by more than one frame:\n    " + frame_brief(r.msg) + "\n" + show_frames(oth));
      if (pr == RuleParse::Ok) {
        if (removed) { if (r.msg.type != T_RETURN) fail("removematch", "rule equal to a held rule could not be removed: " + r.msg.fstr(F_ERROR_NAME)); for (size_t k = 0; k < texts[i].size(); k++) { MatchRule m2; std::string w2; if (parse_match_rule(texts[i][k], &m2, &w2) == RuleParse::Ok && m2 == mr) { texts[i].erase(texts[i].begin() + k); break; } } }
        else if (!(r.msg.type == T_ERROR && r.msg.fstr(F_ERROR_NAME) == "org.freedesktop.DBus.Error.MatchRuleNotFound")) fail("removematch", "removing a rule that is not held answered with " + (r.msg.type == T_ERROR ? r.msg.fstr(F_ERROR_NAME) : std::string("success")));
      } else if (r.msg.type != T_ERROR) fail("removematch", "RemoveMatch of an ungrammatical rule succeeded");
    } else if (op == 5 && nclients > 2) {
      g_log.push_back("client" + std::to_string(i) + " closes its socket");
      bus.close_client(cl[i]);
      // (frames eavesdropped earlier may still be unread; whether they may be dropped is decided by the rules held *before* the
      //  disconnect, which removes other clients' rules that name the departed unique name)
      std::vector<MConn> before_dc = model.conns;
      Out o; model.disconnect(mc[i], o);
      bus.pump();
      for (int j = 0; j < nclients; j++) if (bus.client(cl[j]).open()) {
        auto fr = bus.drain(cl[j]);
        drop_eavesdropped(fr, before_dc[mc[j]]);
        std::string d = match_frames(fr, o[mc[j]]);
        if (!d.empty()) fail("frames-differ", "after a disconnect, client" + std::to_string(j) + ": " + d + "\n  got:\n" + show_frames(fr) + "  want:\n" + show_exps(o[mc[j]]));
        Bus::free_frames(fr);
      }
    } else {
      // broadcast signal
      Msg m; m.type = T_SIGNAL; m.serial = 0; m.be = f.ConsumeBool();
      m.set_str(F_PATH, 'o', kPath[pick(f, 7)]);
      m.set_str(F_INTERFACE, 's', kIf[pick(f, 3)]);   // never the bus interface from a client? allowed, but keep the bus' own interface out to avoid policy special cases
      m.set_str(F_MEMBER, 's', kMem[pick(f, 4)]);
      int na = (int)pick(f, 4);
      for (int a = 0; a < na; a++) {
        int kind = (int)pick(f, 5);
        if (kind <= 2) m.body.push_back(Value::str('s', kArg[pick(f, 16)]));
        else if (kind == 3) { std::string p = kPath[pick(f, 7)]; m.body.push_back(Value::str('o', p)); }
        else m.body.push_back(Value::basic(f.ConsumeBool() ? 'u' : 'y', pick(f, 200)));
      }
      if (rare(f, 6)) { while (m.body.size() < 11) m.body.push_back(Value::str('s', kArg[pick(f, 16)])); }   // reach arg9 / arg10
      m.fix_signature();
      m.serial = bus.client(cl[i]).serial++;
      Msg st = model.stamp(m, mc[i]);
      std::vector<int> rec = model.rule_recipients(st, mc[i], -1);
      std::string rs; for (int r : rec) for (int j = 0; j < nclients; j++) if (mc[j] == r) rs += std::to_string(j) + " ";
      g_log.push_back("client" + std::to_string(i) + " broadcasts " + frame_brief(m) + " -> model recipients: [" + rs + "]");
      bus.send(cl[i], m);
      if (!bus.pump()) fail("spin", "bus main loop did not become idle");
      int nrules = 0, nconn_with_rules = 0, matched = 0, unmatched = 0;
      for (int j = 0; j < nclients; j++) {
        if (!bus.client(cl[j]).open()) continue;
        auto fr = bus.drain(cl[j]);
        drop_eavesdropped(fr, model.conns[mc[j]]);
        if (bus.client(cl[j]).eof) fail("disconnected", "client" + std::to_string(j) + " was disconnected by the bus");
        bool want = std::find(rec.begin(), rec.end(), mc[j]) != rec.end();
        std::vector<Exp> w; if (want) w.push_back(exp_forward(st));
        std::string d = match_frames(fr, w);
        if (!d.empty()) fail(want ? "delivery-missing-or-wrong" : "delivery-unexpected", "client" + std::to_string(j) + " (" + bus.client(cl[j]).unique + "): " + d + "\n  got:\n" + show_frames(fr) + "  want:\n" + show_exps(w) + "  its rules:\n" + [&] { std::string s; for (auto& r : model.conns[mc[j]].rules) s += "    " + r.show() + "\n"; return s; }());
        Bus::free_frames(fr);
        size_t nr = model.conns[mc[j]].rules.size();
        nrules += (int)nr; if (nr) nconn_with_rules++;
        if (want) matched++; else if (nr) unmatched++;
      }
      if (nrules >= 2 && nconn_with_rules >= 2 && matched >= 1 && unmatched >= 1) nontrivial = true;
    }
  }
  if (count) { stats_class("clients:" + std::to_string(nclients)); stats_class(nontrivial ? "nontrivial" : "trivial"); }
  if (nontrivial && count) {
    std::string key; for (auto& l : g_log) key += l + "|";
    key = normalize_uniques(key);
    uint64_t h = fnv1a(key.data(), key.size());
    stats_nontrivial(h);
    if (stats_want_sample(h)) { std::string s; for (auto& l : g_log) s += l + "; "; stats_sample(h, normalize_uniques(s)); }
  }
  long leaked = bus.stop();
  return {leaked, bus.fds_leaked};
}

extern "C" int LLVMFuzzerTestOneInput(const uint8_t* data, size_t size) {
  stats_init("C07");
  stats_exec();
  auto r = run_history(data, size, true);
  if (r.first != 0 || r.second != 0) {
    auto r2 = run_history(data, size, false);
    if (r2.first != 0) fail("leak", "libdbus allocations outstanding after bus shutdown (repeatable): " + std::to_string(r2.first));
    if (r2.second != 0) fail("fd-leak", "descriptors still open after bus shutdown (repeatable): " + std::to_string(r2.second));
  }
  return 0;
}
