// C11 — message framing is independent of how the byte stream is chunked.
// Loader-level: the same stream is fed whole (A) and in generated chunks (B) to
// two DBusMessageLoaders; popped frame sequences, the corruption flag and the
// independent stream decoding must all agree.  (The transport-level variant
// that straddles the BEGIN boundary lives in c11_transport.cc.)
#include "dbusx.h"
#include "gen.h"
#include "libwalk.h"
#include "stats.h"
#include <cstring>
#include <cstdlib>
#include <algorithm>

using namespace vp;

struct Case { std::string stream; std::vector<size_t> cuts; std::string desc; int nmsgs = 0; bool honour_hint = false; };

static void fail(const char* kind, const Case& c, const std::string& what) {
  std::string cuts; for (size_t x : c.cuts) cuts += std::to_string(x) + ","; if (cuts.size() > 400) cuts = cuts.substr(0, 400) + "...";
  violation(kind, what + "\nstream: " + c.desc + " len=" + std::to_string(c.stream.size()) + " honour_hint=" + std::to_string(c.honour_hint) + "\ncuts: " + cuts + "\nstream(hex)=" + hex(c.stream, 300));
}

struct Out { std::vector<std::string> frames; bool corrupted = false; bool oom = false; size_t popped_after_corrupt = 0; };

static void pop_all(DBusMessageLoader* L, Out& o) {
  DBusMessage* m;
  while ((m = _dbus_message_loader_pop_message(L)) != nullptr) { std::string b; if (!lib_marshal(m, b)) o.oom = true; o.frames.push_back(b); dbus_message_unref(m); }
}

static Out feed(const Case& c, bool chunked) {
  Out o;
  DBusMessageLoader* L = _dbus_message_loader_new();
  if (!L) { o.oom = true; return o; }
  size_t pos = 0, ci = 0;
  while (pos < c.stream.size()) {
    size_t end = c.stream.size();
    if (chunked) { while (ci < c.cuts.size() && c.cuts[ci] <= pos) ci++; if (ci < c.cuts.size()) end = c.cuts[ci]; }
    DBusString* buf; int max_to_read = 0; dbus_bool_t may_fds = FALSE;
    _dbus_message_loader_get_buffer(L, &buf, &max_to_read, &may_fds);
    size_t n = end - pos;
    if (chunked && c.honour_hint && max_to_read > 0 && (size_t)max_to_read < n) n = max_to_read;
    // exact-size copy of the chunk: the loader must not look beyond it
    char* cp = (char*)malloc(n ? n : 1); memcpy(cp, c.stream.data() + pos, n);
    dbus_bool_t ok = _dbus_string_append_len(buf, cp, (int)n);
    free(cp);
    _dbus_message_loader_return_buffer(L, buf);
    if (!ok) { o.oom = true; break; }
    pos += n;
    if (!_dbus_message_loader_queue_messages(L)) { o.oom = true; break; }
    bool was = o.corrupted;
    o.corrupted = _dbus_message_loader_get_is_corrupted(L);
    size_t before = o.frames.size();
    pop_all(L, o);
    if (was) o.popped_after_corrupt += o.frames.size() - before;
    if (o.corrupted && chunked) {
      // a real transport stops reading here; feeding more must not produce anything either
    }
  }
  _dbus_message_loader_unref(L);
  return o;
}

extern "C" int LLVMFuzzerTestOneInput(const uint8_t* data, size_t size) {
  stats_init("C11");
  stats_exec();
  FDP f(data, size);
  Case c;
  MsgCfg mc; mc.g.allow_h = false; mc.allow_fds_field = false;
  int n = 1 + (int)pick(f, 6);
  std::vector<size_t> bounds;
  for (int i = 0; i < n; i++) {
    int shape = (int)pick(f, 8);
    Msg m = gen_msg(f, mc);
    if (shape == 5) { m.body.clear(); m.fix_signature(); }                        // empty body
    if (shape == 6) { m.body.clear(); m.body.push_back(Value::basic('y', 9)); m.fix_signature(); }  // 1-byte body
    if (shape == 7) { m.body.clear(); m.body.push_back(Value::str('s', std::string(1 + pick(f, 9000), 'B'))); m.fix_signature(); }  // large
    m.del(F_UNIX_FDS);
    c.stream += encode_msg(m);
    bounds.push_back(c.stream.size());
    c.desc += "[" + std::to_string(c.stream.size()) + "]";
  }
  c.nmsgs = n;
  bool invalid_tail = rare(f, 3);
  if (invalid_tail) {
    Msg m = gen_msg(f, mc); Layout lay; std::string b = encode_msg(m, &lay);
    std::string op = corrupt(f, b, lay);
    c.stream += b; c.desc += " +corrupt(" + op + ")";
    if (f.ConsumeBool()) { Msg m2 = gen_msg(f, mc); c.stream += encode_msg(m2); c.desc += " +valid-after"; }
    if (f.ConsumeBool()) { c.stream += f.ConsumeBytesAsString(pick(f, 40)); c.desc += " +junk"; }
  }
  // partition
  int pmode = (int)pick(f, 6);
  bool inside = false;
  switch (pmode) {
    case 0: for (size_t i = 1; i < c.stream.size(); i++) c.cuts.push_back(i); break;                      // one byte at a time
    case 1: for (size_t b : bounds) c.cuts.push_back(b); break;                                             // exactly at message boundaries
    case 2: { size_t start = 0; for (size_t b : bounds) { for (size_t k = 1; k < 24 && start + k < b; k += 1 + pick(f, 5)) c.cuts.push_back(start + k); start = b; } break; }  // inside fixed headers / first fields
    case 3: { size_t step = 1 + pick(f, 64); for (size_t i = step; i < c.stream.size(); i += step) c.cuts.push_back(i); break; }
    default: { size_t nc = pick(f, 40); for (size_t i = 0; i < nc; i++) c.cuts.push_back(c.stream.empty() ? 0 : pick(f, c.stream.size())); std::sort(c.cuts.begin(), c.cuts.end()); break; }
  }
  c.honour_hint = f.ConsumeBool();
  for (size_t x : c.cuts) { bool onb = x == 0; for (size_t b : bounds) if (x == b) onb = true; if (!onb && x < c.stream.size()) inside = true; }

  StreamResult R = decode_stream((const uint8_t*)c.stream.data(), c.stream.size(), 0);
  if (R.tail_unspec && R.reason.rfind("KF:", 0) == 0) { if (kf_open("C16-unique-name-short")) { kf_hit("C16-unique-name-short"); } else R.tail_unspec = false; }
  Out A = feed(c, false), B = feed(c, true);
  if (A.oom || B.oom) return 0;
  // B vs A: same frames, same final corruption flag
  if (A.frames.size() != B.frames.size()) fail("chunking-changes-frames", c, "whole-buffer run produced " + std::to_string(A.frames.size()) + " messages, chunked run " + std::to_string(B.frames.size()));
  for (size_t i = 0; i < A.frames.size(); i++) if (A.frames[i] != B.frames[i]) fail("chunking-changes-frames", c, "message #" + std::to_string(i) + " differs between whole-buffer and chunked run");
  if (A.corrupted != B.corrupted) fail("chunking-changes-corruption", c, "corrupted flag: whole=" + std::to_string(A.corrupted) + " chunked=" + std::to_string(B.corrupted));
  // both vs the independent decoding
  if (!R.tail_unspec) {
    if (B.frames.size() != R.frames.size()) fail("frames-vs-oracle", c, "loader produced " + std::to_string(B.frames.size()) + " messages, independent decoder " + std::to_string(R.frames.size()) + " (" + R.reason + ")");
    if (R.final == St::Corrupt && !B.corrupted) fail("corruption-missed", c, "stream corrupt per specification (" + R.reason + ") but loader not corrupted");
    if (R.final == St::End && B.corrupted) fail("corruption-spurious", c, "valid stream flagged corrupt");
  }
  for (size_t i = 0; i < B.frames.size() && i < R.frames.size(); i++)
    if (B.frames[i] != c.stream.substr(R.frames[i].off, R.frames[i].len)) fail("frame-bytes-differ", c, "message #" + std::to_string(i) + " is not the corresponding slice of the stream");
  stats_class("partition:" + std::to_string(pmode));
  stats_class(std::string("tail:") + (invalid_tail ? "invalid" : "clean"));
  stats_class("msgs:" + std::to_string(n));
  if (n >= 2 && inside) {
    std::string key = c.stream; for (size_t x : c.cuts) { key += (char)(x & 255); key += (char)(x >> 8); }
    uint64_t h = fnv1a(key.data(), key.size());
    stats_nontrivial(h);
    if (stats_want_sample(h)) { std::string cuts; for (size_t i = 0; i < c.cuts.size() && i < 30; i++) cuts += std::to_string(c.cuts[i]) + ","; stats_sample(h, c.desc + " cuts=" + cuts + " oracle-frames=" + std::to_string(R.frames.size()) + " final=" + (R.final == St::Corrupt ? "corrupt:" + R.reason : R.final == St::End ? "end" : "needmore")); }
  }
  return 0;
}
