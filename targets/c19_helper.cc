// C19 (helper part) — the activation helper executes a program only for a
// syntactically valid bus name whose service file, found in the configured
// service directories, declares exactly that name together with Exec and User.
// The helper's run_launch_helper() (bus/activation-helper.c, test variant: config
// from TEST_LAUNCH_HELPER_CONFIG, no setuid checks) runs in a forked child on
// generated name arguments and generated service-directory contents.  Oracle: an
// independent reading of the generated files decides EXEC / NO-EXEC / no verdict,
// and when a program is executed its argv must be what the generated argument
// list says (render/parse round trip) and what /bin/sh splits the Exec line into.
#include "dbusx.h"
#include "gen.h"
#include "stats.h"
#include <unistd.h>
#include <sys/stat.h>
#include <sys/wait.h>
#include <dirent.h>
#include <fcntl.h>
#include <fstream>
#include <map>

extern "C" dbus_bool_t run_launch_helper(const char* bus_name, DBusError* error);

using namespace vp;

static std::string g_dir;
static void rm_rf(const std::string& d) {
  DIR* dp = opendir(d.c_str()); if (!dp) return;
  while (struct dirent* e = readdir(dp)) { std::string n = e->d_name; if (n == "." || n == "..") continue; std::string p = d + "/" + n; struct stat st; if (lstat(p.c_str(), &st) == 0 && S_ISDIR(st.st_mode)) rm_rf(p); else unlink(p.c_str()); }
  closedir(dp); rmdir(d.c_str());
}
static void write_file(const std::string& p, const std::string& s) { std::ofstream o(p, std::ios::binary); o << s; }
static std::string read_file(const std::string& p) { std::ifstream i(p, std::ios::binary); std::string s((std::istreambuf_iterator<char>(i)), std::istreambuf_iterator<char>()); return s; }

enum Expect { EXEC, NOEXEC, UNSPEC };

// one generated argument and its rendering on an Exec line (POSIX shell quoting, which dbus-shell.c documents it follows)
static std::string gen_arg(FDP& f) {
  static const char cs[] = "abcXYZ019/._- '\"\\";
  size_t n = pick(f, 7); std::string s;
  for (size_t i = 0; i < n; i++) s += cs[pick(f, sizeof cs - 1)];
  return s;
}
static std::string render_arg(FDP& f, const std::string& a) {
  int style = (int)pick(f, 4);
  bool plain = !a.empty(); for (char c : a) if (c == ' ' || c == '\'' || c == '"' || c == '\\') plain = false;
  if (style == 0 && plain) return a;
  if (style <= 1) { std::string o = "'"; for (char c : a) { if (c == '\'') o += "'\\''"; else o += c; } return o + "'"; }                 // single quotes
  if (style == 2) { std::string o = "\""; for (char c : a) { if (c == '"' || c == '\\') o += '\\'; o += c; } return o + "\""; }         // double quotes
  std::string o; for (char c : a) { if (c == ' ' || c == '\'' || c == '"' || c == '\\') o += '\\'; o += c; } return a.empty() ? "''" : o;   // backslash escapes
}
// desktop-file value escaping: backslash doubled [bus/desktop-file.c unescape_string]
static std::string escape_value(const std::string& v) { std::string o; for (char c : v) { if (c == '\\') o += "\\\\"; else o += c; } return o; }

// /bin/sh as an independent word splitter (the charset has no expansion characters)
static bool sh_split(const std::string& exec, std::vector<std::string>* out) {
  std::string script = "set -- " + exec + "\nfor a; do printf '%s\\000' \"$a\"; done\n";
  std::string sf = g_dir + "/split.sh", of = g_dir + "/split.out";
  write_file(sf, script);
  pid_t p = fork();
  if (p == 0) { int fd = open(of.c_str(), O_WRONLY | O_CREAT | O_TRUNC, 0644); dup2(fd, 1); int n = open("/dev/null", O_WRONLY); dup2(n, 2); execl("/bin/sh", "sh", sf.c_str(), (char*)nullptr); _exit(127); }
  int st = 0; waitpid(p, &st, 0);
  if (!WIFEXITED(st) || WEXITSTATUS(st) != 0) return false;
  std::string o = read_file(of); out->clear(); size_t i = 0;
  while (i < o.size()) { size_t j = o.find('\0', i); if (j == std::string::npos) break; out->push_back(o.substr(i, j - i)); i = j + 1; }
  return true;
}

struct FileSpec { bool present = false; bool parses = true; bool section = true; std::string name; bool has_name = true, has_exec = true, has_user = true; std::string exec; std::string text; };

extern "C" int LLVMFuzzerTestOneInput(const uint8_t* data, size_t size) {
  stats_init("C19");
  stats_exec();
  FDP f(data, size);
  char buf[128]; snprintf(buf, sizeof buf, "/tmp/vp-c19h-%d", (int)getpid()); g_dir = buf;
  rm_rf(g_dir); mkdir(g_dir.c_str(), 0755);
  const char* bindir = getenv("VP_BIN"); std::string stub = std::string(bindir ? bindir : "/verif/build/bin") + "/vp_service";
  write_file(g_dir + "/H.script", "argv\n");
  // service directories: s1, s2 configured (in this order); s3 exists but is not configured
  int ndirs = 1 + (int)pick(f, 2);
  std::string conf = "<!DOCTYPE busconfig PUBLIC \"-//freedesktop//DTD D-Bus Bus Configuration 1.0//EN\" \"http://www.freedesktop.org/standards/dbus/1.0/busconfig.dtd\">\n<busconfig>\n<user>root</user>\n<type>system</type>\n";
  for (int d = 1; d <= 3; d++) { mkdir((g_dir + "/s" + std::to_string(d)).c_str(), 0755); if (d <= ndirs) conf += "<servicedir>" + g_dir + "/s" + std::to_string(d) + "</servicedir>\n"; }
  conf += "</busconfig>\n";
  write_file(g_dir + "/helper.conf", conf);

  // the name argument
  static const char* const good[] = {"com.vp.h.A", "com.vp.h.B", "org.x.Y1", "a.b"};
  static const char* const bad[] = {"", "noperiod", "a..b", "../s3/com.vp.h.A", "com.vp.h.A/../com.vp.h.B", "com.vp.h.A\n", "com.vp.h.A ", ".a.b", "a.b.", "1a.b", "com.vp.h.A.service", "com/vp", "a.b-c", "a.-b"};
  std::string arg; bool arg_valid;
  int ak = (int)pick(f, 10);
  if (ak <= 5) arg = good[pick(f, 4)];
  else if (ak <= 7) arg = bad[pick(f, 14)];
  else if (ak == 8) arg = gen_name_of_len(f, 'b', 250 + pick(f, 10));   // around the 255 limit
  else arg = f.ConsumeBool() ? ":1.5" : gen_wellknown(f);
  bool unspec_name = unique_name_short_form(arg);
  arg_valid = is_bus_name(arg);

  // files: for the argument's file name in each directory (and a decoy under another name)
  std::vector<std::string> argv_expected;
  FileSpec spec[4];
  std::string log;
  bool safe_filename = arg.find('/') == std::string::npos && !arg.empty() && arg.size() < 200 && arg.find('\n') == std::string::npos;
  for (int d = 1; d <= 3; d++) {
    FileSpec& s = spec[d];
    s.present = safe_filename && !rare(f, 3);
    if (!s.present) continue;
    int kind = (int)pick(f, 12);
    s.name = arg;
    std::vector<std::string> args; int na = (int)pick(f, 4); for (int i = 0; i < na; i++) args.push_back(gen_arg(f));
    std::string exec = stub + " H"; for (auto& a : args) exec += " " + render_arg(f, a);
    s.exec = exec;
    std::string sect = "[D-BUS Service]";
    std::string user_line = "User=root\n";
    std::string pre, post;
    switch (kind) {
      case 0: case 1: case 2: case 3: break;                                   // fully valid
      case 4: s.name = f.ConsumeBool() ? arg + "x" : "com.vp.h.Other"; break;   // Name mismatch
      case 5: s.has_name = false; break;
      case 6: s.has_exec = false; break;
      case 7: s.has_user = false; break;
      case 8: s.section = false; sect = f.ConsumeBool() ? "[Desktop Entry]" : "[D-BUS service]"; break;   // keys live in another section
      case 9: s.parses = false; pre = "this line is neither a comment nor a key\n"; break;
      case 10: s.exec = stub + " H 'unterminated"; break;                       // word splitting fails -> nothing executed
      case 11: s.exec = "/nonexistent/vp/helper-binary arg"; break;             // execv fails
    }
    if (rare(f, 3)) pre = "# comment\n\n" + pre;
    if (rare(f, 4)) post = "\n[Other Section]\nName=com.vp.h.Decoy\nExec=/bin/false\nUser=nobody\n";
    s.text = pre + sect + "\n" + (s.has_name ? "Name=" + s.name + "\n" : "") + (s.has_exec ? "Exec=" + escape_value(s.exec) + "\n" : "") + (s.has_user ? user_line : "") + post;
    write_file(g_dir + "/s" + std::to_string(d) + "/" + arg + ".service", s.text);
    log += "s" + std::to_string(d) + "/" + arg + ".service kind " + std::to_string(kind) + (d > ndirs ? " (directory not configured)" : "") + "; ";
    if (kind <= 3) { /* remember what this file would execute */ }
    (void)args;
  }
  // ---- oracle
  Expect want = NOEXEC; std::string why = "no usable service file"; const FileSpec* used = nullptr;
  if (unspec_name) { want = UNSPEC; why = "known finding: short unique name"; }
  else if (!arg_valid) { want = NOEXEC; why = "the name is not a valid bus name"; }
  else {
    for (int d = 1; d <= ndirs; d++) { if (spec[d].present && spec[d].parses) { used = &spec[d]; break; } }   // first file that loads [D desktop_file_for_name]
    if (!used) { want = NOEXEC; why = "no loadable file in the configured directories"; }
    else if (!used->section || !used->has_name || used->name != arg) { want = NOEXEC; why = "the file does not declare exactly this name"; }
    else if (!used->has_exec || !used->has_user) { want = NOEXEC; why = "Exec or User missing"; }
    else {
      std::vector<std::string> sh;
      bool shok = sh_split(used->exec, &sh);
      if (!shok || sh.empty()) { want = NOEXEC; why = "Exec does not split into words"; }
      else if (sh[0] != stub) { want = NOEXEC; why = "the program does not exist"; }
      else { want = EXEC; argv_expected = sh; why = "valid service file"; }
    }
  }
  // ---- run the helper in a child
  unlink((g_dir + "/argv.H.log").c_str());
  int pfd[2]; if (pipe(pfd) < 0) return 0;
  fflush(nullptr);
  pid_t pid = fork();
  if (pid == 0) {
    close(pfd[0]);
    setenv("TEST_LAUNCH_HELPER_CONFIG", (g_dir + "/helper.conf").c_str(), 1);
    setenv("VP_STUB_DIR", g_dir.c_str(), 1);
    fcntl(pfd[1], F_SETFD, FD_CLOEXEC);
    DBusError e; dbus_error_init(&e);
    dbus_bool_t ok = run_launch_helper(arg.c_str(), &e);
    std::string msg = std::string(ok ? "RETURNED-TRUE " : "ERR ") + (e.name ? e.name : "-") + "\n";
    (void)!write(pfd[1], msg.data(), msg.size());
    _exit(0);
  }
  close(pfd[1]);
  std::string report; char rb[512]; ssize_t rn; while ((rn = read(pfd[0], rb, sizeof rb)) > 0) report.append(rb, rn);
  close(pfd[0]);
  int st = 0; waitpid(pid, &st, 0);
  std::string argvlog = read_file(g_dir + "/argv.H.log");
  bool executed = !argvlog.empty();
  std::string desc = "helper argument '" + arg + "' (" + (arg_valid ? "valid" : "invalid") + " bus name); " + std::to_string(ndirs) + " configured dirs; files: " + log;
  if (WIFSIGNALED(st)) violation("helper-crashed", "the helper child was killed by signal " + std::to_string(WTERMSIG(st)) + "\n" + desc);
  stats_class(std::string("want:") + (want == EXEC ? "exec" : want == NOEXEC ? "no-exec" : "unspec"));
  stats_class("why:" + why);
  if (want == UNSPEC) { if (kf_open("C16-unique-name-short")) kf_hit("C16-unique-name-short"); rm_rf(g_dir); return 0; }
  if (want == NOEXEC && executed) violation("executed-without-valid-service-file", "the helper executed a program (" + argvlog + ") although " + why + "\n" + desc + "\nfile used by the model: " + (used ? used->text : std::string("(none)")));
  if (want == NOEXEC && report.rfind("ERR ", 0) != 0) violation("no-error", "nothing may be executed (" + why + ") but the helper reported '" + report + "'\n" + desc);
  if (want == EXEC) {
    if (!executed) violation("not-executed", "a valid service file exists but nothing was executed; helper reported '" + report + "'\n" + desc + "\nfile:\n" + used->text);
    std::string exp; for (auto& a : argv_expected) exp += "[" + a + "]";
    if (argvlog != exp + "\n") violation("argv-differs", "the program was started with " + argvlog + " but the Exec line splits into " + exp + "\nExec=" + used->exec + "\n" + desc);
  }
  bool nontrivial = (want == EXEC && argv_expected.size() >= 3) || (want == NOEXEC && used != nullptr) || (!arg_valid);
  stats_class(nontrivial ? "nontrivial" : "trivial");
  if (nontrivial) { std::string k = desc + (used ? used->text : ""); uint64_t hk = fnv1a(k.data(), k.size()); stats_nontrivial(hk); if (stats_want_sample(hk)) stats_sample(hk, desc + " -> " + (want == EXEC ? "executed " + argvlog : "refused: " + report)); }
  rm_rf(g_dir);
  return 0;
}

#ifdef VP_ENUM
int main(int argc, char** argv) { return vp::enum_main(argc, argv); }
#endif
