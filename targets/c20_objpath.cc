// C20 — object-path handlers are chosen by exact path, then nearest fallback.
// Histories of try_register_object_path / try_register_fallback / unregister on one
// private DBusConnection (peer = raw harness socket) over path pools with shared
// prefixes and adjacently sorting siblings; incoming method calls inside, beside
// and below the registrations.  Oracle: a map path -> {fallback?, declines?}.
#include "dbusx.h"
#include "gen.h"
#include "rawpeer.h"
#include "stats.h"
#include <map>
#include <set>
#include <algorithm>

using namespace vp;

static const char* const kPaths[] = {"/", "/a", "/a/b", "/a/b/c", "/a/bb", "/a/b_", "/ab", "/a/b/c/d", "/z", "/a/B", "/a/b0", "/a/a"};
static const int kNPaths = 12;

struct Reg { bool fallback; bool declines; int id; };
static std::vector<int>* g_calls;   // order of handler invocations (ids)

struct HData { int id; bool declines; };
static DBusHandlerResult on_message(DBusConnection*, DBusMessage*, void* ud) {
  HData* h = (HData*)ud;
  g_calls->push_back(h->id);
  return h->declines ? DBUS_HANDLER_RESULT_NOT_YET_HANDLED : DBUS_HANDLER_RESULT_HANDLED;
}
static void on_unregister(DBusConnection*, void* ud) { delete (HData*)ud; }
static const DBusObjectPathVTable kVtable = {on_unregister, on_message, nullptr, nullptr, nullptr, nullptr};

static std::vector<std::string> g_log;
static void fail(const char* kind, const std::string& what) { std::string s; for (auto& l : g_log) s += "  " + l + "\n"; violation(kind, what + "\nhistory:\n" + s); }

static bool is_ancestor_or_self(const std::string& a, const std::string& p) {   // a is p or a proper ancestor of p
  if (a == p) return true;
  if (a == "/") return true;
  return p.size() > a.size() && p.compare(0, a.size(), a) == 0 && p[a.size()] == '/';
}

extern "C" int LLVMFuzzerTestOneInput(const uint8_t* data, size_t size) {
  stats_init("C20");
  stats_exec();
  FDP f(data, size);
  g_log.clear();
  std::vector<int> calls; g_calls = &calls;
  RawPeer peer;
  DBusConnection* c = peer.connect();
  if (!c) return 0;
  std::map<std::string, Reg> model;
  int next_id = 1; uint32_t serial = 1;
  bool nontrivial = false;
  int nops = 2 + (int)pick(f, 24);
  for (int step = 0; step < nops; step++) {
    int k = (int)pick(f, 10);
    std::string p = kPaths[pick(f, kNPaths)];
    if (k <= 3) {
      bool fb = f.ConsumeBool(), dec = f.ConsumeBool();
      HData* hd = new HData{next_id, dec};
      DBusError e; dbus_error_init(&e);
      dbus_bool_t ok = fb ? dbus_connection_try_register_fallback(c, p.c_str(), &kVtable, hd, &e) : dbus_connection_try_register_object_path(c, p.c_str(), &kVtable, hd, &e);
      g_log.push_back(std::string("register") + (fb ? "_fallback " : " ") + p + (dec ? " (declines)" : " (handles)") + " id=" + std::to_string(next_id) + " -> " + (ok ? "ok" : e.name ? e.name : "?"));
      bool occupied = model.count(p) != 0;
      if (occupied) {
        if (ok) fail("occupied-path-registered", "registering the occupied path " + p + " succeeded");
        if (!dbus_error_has_name(&e, DBUS_ERROR_OBJECT_PATH_IN_USE)) { if (dbus_error_has_name(&e, DBUS_ERROR_NO_MEMORY)) { dbus_error_free(&e); delete hd; continue; } fail("wrong-error", std::string("registering an occupied path failed with ") + (e.name ? e.name : "(no error)")); }
        delete hd;
      } else {
        if (!ok) { if (dbus_error_has_name(&e, DBUS_ERROR_NO_MEMORY)) { dbus_error_free(&e); delete hd; continue; } fail("register-failed", std::string("registering the free path ") + p + " failed with " + (e.name ? e.name : "?")); }
        model[p] = Reg{fb, dec, next_id};
      }
      dbus_error_free(&e);
      next_id++;
    } else if (k == 4) {
      if (!model.count(p)) continue;   // [D] unregistering a path that is not registered is a caller error
      g_log.push_back("unregister " + p);
      if (!dbus_connection_unregister_object_path(c, p.c_str())) continue;
      model.erase(p);
    } else if (k <= 7) {
      // incoming method call to a path inside, beside or below the registrations
      static const char* const extra[] = {"/a/b/x", "/a/b/c/d/e", "/q", "/a/bb/c", "/a/b_/z", "/abc", "/a"};
      std::string target = f.ConsumeBool() ? p : std::string(extra[pick(f, 7)]);
      Msg m; m.type = T_CALL; m.serial = ++serial + 100; m.set_str(F_PATH, 'o', target); m.set_str(F_INTERFACE, 's', "com.vp.Obj"); m.set_str(F_MEMBER, 's', "Poke");
      m.set_str(F_SENDER, 's', ":1.77");
      calls.clear();
      peer.write_msg(m);
      pump_connection(c);
      // model: exact handler, then fallbacks of successively shorter ancestors, stopping at the first HANDLED
      std::vector<int> want; bool handled = false;
      std::vector<std::string> chain;   // target, then ancestors longest first
      { std::string cur = target; while (true) { chain.push_back(cur); if (cur == "/") break; size_t sl = cur.rfind('/'); cur = sl == 0 ? "/" : cur.substr(0, sl); } }
      int candidates = 0;
      for (size_t i = 0; i < chain.size() && !handled; i++) {
        auto it = model.find(chain[i]);
        if (it == model.end()) continue;
        if (i == 0 || it->second.fallback) { want.push_back(it->second.id); candidates++; if (!it->second.declines) handled = true; }
      }
      std::string ws, gs; for (int x : want) ws += std::to_string(x) + " "; for (int x : calls) gs += std::to_string(x) + " ";
      g_log.push_back("call to " + target + " -> handlers invoked [" + gs + "] model [" + ws + "]");
      if (calls != want) fail("handler-order", "method call to " + target + ": handlers invoked [" + gs + "] but the registrations prescribe [" + ws + "]");
      auto fr = peer.read_frames();
      if (handled) { if (!fr.empty()) fail("unexpected-reply", "a handler took the call but the connection also sent: " + frame_brief(fr[0].msg)); }
      else {
        // which error: UnknownMethod iff the path is registered, an ancestor of a registered path, or below a fallback registration
        bool known = false;
        for (auto& kv : model) { if (is_ancestor_or_self(target, kv.first)) known = true; if (kv.second.fallback && is_ancestor_or_self(kv.first, target)) known = true; }
        if (fr.size() != 1 || !fr[0].valid || fr[0].msg.type != T_ERROR || fr[0].msg.fu32(F_REPLY_SERIAL) != m.serial) fail("no-error-reply", "nobody took the call, expected exactly one error reply; got " + std::to_string(fr.size()) + " frames");
        std::string en = fr[0].msg.fstr(F_ERROR_NAME);
        std::string wn = known ? "org.freedesktop.DBus.Error.UnknownMethod" : "org.freedesktop.DBus.Error.UnknownObject";
        g_log.back() += " error=" + en;
        if (en != wn) {
          if (!known && en == "org.freedesktop.DBus.Error.UnknownMethod" && kf_open("C20-unknown-object-unreachable")) kf_hit("C20-unknown-object-unreachable");
          else fail("wrong-error", "nobody took the call to " + target + ": the reply is " + en + " but the registered tree prescribes " + wn);
        }
      }
      int shared = 0; for (auto& kv : model) if (kv.first != "/" && (is_ancestor_or_self(kv.first, target) || is_ancestor_or_self(target, kv.first) || kv.first.substr(0, 2) == target.substr(0, 2))) shared++;
      if (model.size() >= 3 && shared >= 3 && candidates >= 2) nontrivial = true;
    } else {
      // child listing reflects exactly the registered tree
      char** kids = nullptr;
      if (!dbus_connection_list_registered(c, p.c_str(), &kids)) continue;
      std::set<std::string> got; for (int i = 0; kids[i]; i++) got.insert(kids[i]);
      int ngot = 0; for (int i = 0; kids[i]; i++) ngot++;
      dbus_free_string_array(kids);
      std::set<std::string> want;
      for (auto& kv : model) { const std::string& q = kv.first; if (q == p || !is_ancestor_or_self(p, q)) continue; size_t start = p == "/" ? 1 : p.size() + 1; size_t e = q.find('/', start); want.insert(q.substr(start, e == std::string::npos ? std::string::npos : e - start)); }
      std::string gs, ws; for (auto& x : got) gs += x + " "; for (auto& x : want) ws += x + " ";
      g_log.push_back("list_registered " + p + " -> [" + gs + "] model [" + ws + "]");
      if (got != want || ngot != (int)got.size()) fail("child-listing", "list_registered(" + p + ") = [" + gs + "] (" + std::to_string(ngot) + " entries) but the registered tree has children [" + ws + "]");
    }
  }
  stats_class(nontrivial ? "nontrivial" : "trivial");
  stats_class("registrations:" + std::to_string(model.size() > 5 ? 5 : model.size()));
  if (nontrivial) { std::string key; for (auto& l : g_log) key += l + "|"; uint64_t h = fnv1a(key.data(), key.size()); stats_nontrivial(h); if (stats_want_sample(h)) { std::string s; for (auto& l : g_log) s += l + "; "; stats_sample(h, s); } }
  // teardown: unregister everything still registered (no leak of handler data), close
  for (auto& kv : model) dbus_connection_unregister_object_path(c, kv.first.c_str());
  peer.close_peer();
  pump_connection(c, 5);
  dbus_connection_close(c);
  dbus_connection_unref(c);
  dbus_shutdown();
  return 0;
}
