// C16 — name/path/signature/UTF-8 predicates accept exactly the specified grammars.
// Oracle: engine/grammar.cc (written from the specification).  Every entry point
// must agree with it: public dbus_validate_*, dbus_signature_validate[_single],
// internal length-taking predicates (embedded NUL, start offsets), and the same
// string placed into a message handed to dbus_message_demarshal.
// Two front ends over one checker: exhaustive enumeration (-DVP_ENUM) and a
// libFuzzer target for long strings around the limits.
#include "dbusx.h"
#include "grammar.h"
#include "wire.h"
#include "stats.h"
#include <fuzzer/FuzzedDataProvider.h>
#include <cstring>
#include <cstdio>
#include <cstdlib>
#include <vector>

using namespace vp;

enum Kind { K_PATH, K_IFACE, K_MEMBER, K_ERROR, K_BUS, K_NAMESPACE, K_UTF8, K_SIG, K_SINGLE, K_N };
static const char* kind_name[] = {"path", "interface", "member", "error_name", "bus_name", "bus_namespace", "utf8", "signature", "single_signature"};

enum Tri { NO = 0, YES = 1, DONTCARE = 2 };

static Tri oracle(Kind k, const std::string& s, const char** kf) {
  *kf = nullptr;
  switch (k) {
    case K_PATH: return is_object_path(s) ? YES : NO;
    case K_IFACE: return is_interface(s) ? YES : NO;
    case K_MEMBER: return is_member(s) ? YES : NO;
    case K_ERROR: return is_error_name(s) ? YES : NO;
    case K_BUS:
      if (is_bus_name(s)) return YES;
      if (unique_name_short_form(s)) { *kf = "C16-unique-name-short"; return NO; }
      return NO;
    case K_NAMESPACE:
      if (!s.empty() && s[0] == ':') return DONTCARE;  // UNSPEC: "like a bus name" — unique-name namespaces are not described
      return is_bus_namespace(s) ? YES : NO;
    case K_UTF8: return is_utf8(s) ? YES : NO;
    case K_SIG: if (sig_array_depth_ambiguous(s)) return DONTCARE; return is_signature(s) ? YES : NO;
    case K_SINGLE: if (sig_array_depth_ambiguous(s)) return DONTCARE; return is_single_signature(s) ? YES : NO;
    default: return DONTCARE;
  }
}

static Value default_value(const std::string& sig, size_t& pos) {
  char c = sig[pos];
  if (is_fixed_type(c)) { pos++; return Value::basic(c, 0); }
  if (c == 's') { pos++; return Value::str('s', ""); }
  if (c == 'o') { pos++; return Value::str('o', "/"); }
  if (c == 'g') { pos++; return Value::str('g', ""); }
  if (c == 'v') { pos++; return Value::variant(Value::basic('y', 0)); }
  if (c == 'a') { size_t l = sct_len(sig, pos + 1); Value v = Value::array(sig.substr(pos + 1, l)); pos += 1 + l; return v; }
  char close = c == '(' ? ')' : '}';
  Value v; v.t = c; pos++;
  while (pos < sig.size() && sig[pos] != close) v.kids.push_back(default_value(sig, pos));
  pos++;
  return v;
}

static void report(Kind k, const std::string& s, const char* entry, int impl, Tri want) {
  char buf[256];
  snprintf(buf, sizeof buf, "predicate=%s entry=%s implementation=%s oracle=%s len=%zu\ninput(hex)=", kind_name[k], entry, impl ? "accept" : "reject", want == YES ? "valid" : "invalid", s.size());
  violation("grammar-mismatch", std::string(buf) + hex(s, 600));
}

static bool msg_accepts(const std::string& bytes) {
  // 8-aligned exact-size heap copy: over-reads hit an ASan redzone
  char* copy = (char*)aligned_alloc(8, (bytes.size() + 7) & ~(size_t)7);
  memcpy(copy, bytes.data(), bytes.size());
  DBusError e; dbus_error_init(&e);
  DBusMessage* m = dbus_message_demarshal(copy, (int)bytes.size(), &e);
  bool ok = m != nullptr;
  if (m) dbus_message_unref(m);
  dbus_error_free(&e);
  free(copy);
  return ok;
}

// levels: 1 = public + internal; 2 = + message parsing
static void check_one(Kind k, const std::string& s, int level) {
#ifdef VP_ENUM
  set_case_blob(std::string(1, (char)k) + s);
#endif
  const char* kf;
  Tri want = oracle(k, s, &kf);
  if (want == DONTCARE) { stats_class("unspec"); return; }
  if (kf) {
    if (kf_open(kf)) {
      // known finding: excluded by construction, but confirm it still reproduces so that a fix is noticed
      kf_hit(kf);
      return;
    }
  }
  bool has_nul = s.find('\0') != std::string::npos;
  // ---- internal, explicit length, with junk around to expose over-reads / start handling
  {
    std::string padded = "\xff." + s + ".\xff";
    DStr d(padded), e(s);
    int r0 = -1, r1 = -1;
    switch (k) {
      case K_PATH: r0 = _dbus_validate_path(&e.s, 0, s.size()); r1 = _dbus_validate_path(&d.s, 2, s.size()); break;
      case K_IFACE: r0 = _dbus_validate_interface(&e.s, 0, s.size()); r1 = _dbus_validate_interface(&d.s, 2, s.size()); break;
      case K_MEMBER: r0 = _dbus_validate_member(&e.s, 0, s.size()); r1 = _dbus_validate_member(&d.s, 2, s.size()); break;
      case K_ERROR: r0 = _dbus_validate_error_name(&e.s, 0, s.size()); r1 = _dbus_validate_error_name(&d.s, 2, s.size()); break;
      case K_BUS: r0 = _dbus_validate_bus_name(&e.s, 0, s.size()); r1 = _dbus_validate_bus_name(&d.s, 2, s.size()); break;
      case K_NAMESPACE: r0 = _dbus_validate_bus_namespace(&e.s, 0, s.size()); r1 = _dbus_validate_bus_namespace(&d.s, 2, s.size()); break;
      case K_UTF8: r0 = _dbus_string_validate_utf8(&e.s, 0, s.size()); r1 = _dbus_string_validate_utf8(&d.s, 2, s.size()); break;
      case K_SIG: r0 = _dbus_validate_signature_with_reason(&e.s, 0, s.size()) == DBUS_VALID; r1 = _dbus_validate_signature_with_reason(&d.s, 2, s.size()) == DBUS_VALID; break;
      case K_SINGLE: break;
      default: break;
    }
    if (r0 >= 0 && (r0 != 0) != (want == YES)) report(k, s, "internal(start=0)", r0, want);
    if (r1 >= 0 && (r1 != 0) != (want == YES)) report(k, s, "internal(start=2,embedded)", r1, want);
  }
  // ---- public API (C strings: only without embedded NUL)
  if (!has_nul) {
    DBusError err; dbus_error_init(&err);
    int r = -1;
    switch (k) {
      case K_PATH: r = dbus_validate_path(s.c_str(), &err); break;
      case K_IFACE: r = dbus_validate_interface(s.c_str(), &err); break;
      case K_MEMBER: r = dbus_validate_member(s.c_str(), &err); break;
      case K_ERROR: r = dbus_validate_error_name(s.c_str(), &err); break;
      case K_BUS: r = dbus_validate_bus_name(s.c_str(), &err); break;
      case K_UTF8: r = dbus_validate_utf8(s.c_str(), &err); break;
      case K_SIG: r = dbus_signature_validate(s.c_str(), &err); break;
      case K_SINGLE: r = dbus_signature_validate_single(s.c_str(), &err); break;
      default: break;
    }
    if (r >= 0) {
      if ((r != 0) != (want == YES)) report(k, s, "public", r, want);
      if ((r != 0) == (bool)dbus_error_is_set(&err)) violation("public-error-contract", std::string("public validator return value and DBusError disagree for ") + kind_name[k] + " hex=" + hex(s));
    }
    dbus_error_free(&err);
    if ((k == K_SIG || k == K_SINGLE) && want == YES && !s.empty()) {
      // valid signatures must be walkable: termination + agreement on the element split
      DBusSignatureIter it; dbus_signature_iter_init(&it, s.c_str());
      size_t pos = 0; int guard = 0;
      do {
        char* one = dbus_signature_iter_get_signature(&it);
        size_t l = sct_len(s, pos);
        if (!one || l == 0 || s.compare(pos, l, one) != 0) violation("signature-iter", "DBusSignatureIter split differs from oracle; sig=" + s + " at " + std::to_string(pos) + " got=" + (one ? one : "(null)"));
        dbus_free(one);
        pos += l;
        if (++guard > 300) violation("signature-iter", "DBusSignatureIter does not terminate; sig=" + s);
      } while (dbus_signature_iter_next(&it));
      if (pos != s.size()) violation("signature-iter", "DBusSignatureIter stopped early; sig=" + s);
    }
  }
  // ---- the same string inside a message handed to the parser
  if (level >= 2) {
    Msg m; m.serial = 7; m.type = T_CALL;
    m.set_str(F_PATH, 'o', "/p"); m.set_str(F_MEMBER, 's', "M");
    bool skip = false;
    switch (k) {
      case K_PATH: m.set_str(F_PATH, 'o', s); if (s == "/org/freedesktop/DBus/Local") skip = true; break;
      case K_IFACE: m.set_str(F_INTERFACE, 's', s); if (s == "org.freedesktop.DBus.Local") skip = true; break;
      case K_MEMBER: m.set_str(F_MEMBER, 's', s); break;
      case K_ERROR: m.type = T_ERROR; m.set_str(F_ERROR_NAME, 's', s); m.set_u32(F_REPLY_SERIAL, 3); break;
      case K_BUS: m.set_str(F_DESTINATION, 's', s); break;
      case K_NAMESPACE: skip = true; break;
      case K_UTF8: m.body.push_back(Value::str('s', s)); m.fix_signature(); break;
      case K_SIG: m.body.push_back(Value::str('g', s)); m.fix_signature(); if (s.size() > 255) skip = true; break;
      case K_SINGLE:
        if (s.size() > 255) { skip = true; break; }
        if (want == YES) { size_t p = 0; m.body.push_back(Value::variant(default_value(s, p))); m.fix_signature(); }
        else {
          // hand-build variant with the bad signature and no value bytes
          m.set_str(F_SIGNATURE, 'g', "v");
          std::string enc = encode_msg(m);
          std::string body; body += (char)s.size(); body += s; body += '\0';
          // patch body length (little endian) and append
          uint32_t bl = body.size(); memcpy(&enc[4], &bl, 4);
          enc += body;
          if (msg_accepts(enc)) report(k, s, "message(variant signature)", 1, want);
          skip = true;
        }
        break;
      default: skip = true;
    }
    if (!skip) {
      bool acc = msg_accepts(encode_msg(m));
      if (acc != (want == YES)) report(k, s, "message", acc, want);
      // and big endian
      m.be = true;
      bool acc2 = msg_accepts(encode_msg(m));
      if (acc2 != (want == YES)) report(k, s, "message(big-endian)", acc2, want);
    }
  }
  stats_class(std::string(kind_name[k]) + (want == YES ? ":valid" : ":invalid"));
}

static void note_case(Kind k, const std::string& s) {
  stats_exec();
  if (s.size() >= 2) {
    uint64_t h = fnv1a(s.data(), s.size(), 1469598103934665603ull ^ (uint64_t)k * 0x9e3779b97f4a7c15ull);
    stats_nontrivial(h);
    if (stats_want_sample(h)) { const char* kf; Tri w = oracle(k, s, &kf); stats_sample(h, std::string(kind_name[k]) + " hex=" + hex(s, 64) + " oracle=" + (w == YES ? "valid" : w == NO ? "invalid" : "unspec")); }
  }
}

#ifdef VP_ENUM
// usage: c16_enum <names_len> <names_msg_len> <sig_len> <sig_msg_len> <utf8_len> <shard> <nshards>
static const unsigned char kNameAlpha[] = {'a', 'Z', '0', '_', '-', '.', ':', '/', ' ', 0x00, 0x80};
static const unsigned char kSigAlpha[] = {'y', 'b', 'n', 'q', 'i', 'u', 'x', 't', 'd', 's', 'o', 'g', 'h', 'a', 'v', '(', ')', '{', '}', 'z', 'r', 'e'};
static const unsigned char kUtfAlpha[] = {0x00, 0x01, 0x7f, 0x80, 0x8f, 0x90, 0x9f, 0xa0, 0xbf, 0xc0, 0xc1, 0xc2, 0xdf, 0xe0, 0xe1, 0xec, 0xed, 0xee, 0xef,
                                          0xf0, 0xf1, 0xf3, 0xf4, 0xf5, 0xf7, 0xf8, 0xfb, 0xfc, 0xfd, 0xfe, 0xff};

template <class F>
static void enumerate(const unsigned char* alpha, size_t na, int maxlen, uint64_t shard, uint64_t nshards, F f) {
  uint64_t counter = 0;
  for (int len = 0; len <= maxlen; len++) {
    std::vector<size_t> idx(len, 0);
    std::string s(len, (char)alpha[0]);
    while (true) {
      if (counter++ % nshards == shard) f(s, len);
      int i = len - 1;
      while (i >= 0) { if (++idx[i] < na) { s[i] = (char)alpha[idx[i]]; break; } idx[i] = 0; s[i] = (char)alpha[0]; i--; }
      if (i < 0) break;
    }
  }
}

int main(int argc, char** argv) {
  if (argc == 3 && !strcmp(argv[1], "--replay")) {
    stats_init("C16");
    FILE* f = fopen(argv[2], "rb"); if (!f) return 2;
    std::string b; char buf[4096]; size_t n; while ((n = fread(buf, 1, sizeof buf, f)) > 0) b.append(buf, n); fclose(f);
    if (b.empty() || (unsigned char)b[0] >= K_N) return 2;
    check_one((Kind)b[0], b.substr(1), 2);
    return 0;
  }
  if (argc < 8) { fprintf(stderr, "usage\n"); return 2; }
  int nl = atoi(argv[1]), nml = atoi(argv[2]), sl = atoi(argv[3]), sml = atoi(argv[4]), ul = atoi(argv[5]);
  uint64_t shard = atoi(argv[6]), nshards = atoi(argv[7]);
  stats_init("C16");
  static const Kind nameKinds[] = {K_PATH, K_IFACE, K_MEMBER, K_ERROR, K_BUS, K_NAMESPACE, K_UTF8};
  enumerate(kNameAlpha, sizeof kNameAlpha, nl, shard, nshards, [&](const std::string& s, int len) {
    for (Kind k : nameKinds) { note_case(k, s); check_one(k, s, len <= nml ? 2 : 1); }
  });
  enumerate(kSigAlpha, sizeof kSigAlpha, sl, shard, nshards, [&](const std::string& s, int len) {
    note_case(K_SIG, s); check_one(K_SIG, s, len <= sml ? 2 : 1);
    note_case(K_SINGLE, s); check_one(K_SINGLE, s, len <= sml ? 2 : 1);
  });
  enumerate(kUtfAlpha, sizeof kUtfAlpha, ul, shard, nshards, [&](const std::string& s, int) { note_case(K_UTF8, s); check_one(K_UTF8, s, 2); });
  stats_flush();
  dbus_shutdown();
  return 0;
}
#else
// Fuzzed part: long strings around the limits, built from pieces.
static std::string gen_name(FuzzedDataProvider& fdp, Kind k) {
  static const char* pieces[] = {"a", "Z9", "_", "-", ".", "..", ":", "/", "//", " ", "0", "1a", "org", "freedesktop", "DBus", "x-y", "\xc3\xa9", "\x80", "é", "a.b", "/a", "_0"};
  std::string s;
  int mode = fdp.ConsumeIntegralInRange<int>(0, 5);
  size_t target = 0;
  if (mode <= 2) target = fdp.ConsumeIntegralInRange<size_t>(248, 262);
  else if (mode == 3) target = fdp.ConsumeIntegralInRange<size_t>(0, 40);
  else target = fdp.ConsumeIntegralInRange<size_t>(0, 600);
  if (k == K_BUS && fdp.ConsumeBool()) s += ":";
  if (k == K_PATH) s += "/";
  // mostly-valid filler so that the verdict hinges on the length / one bad spot
  const char* sep = k == K_PATH ? "/" : ".";
  int elemlen = fdp.ConsumeIntegralInRange<int>(1, 9);
  int n = 0;
  while (s.size() < target) {
    if (n && n % elemlen == 0 && k != K_MEMBER && k != K_UTF8) s += sep; else s += (char)('a' + (n % 26));
    n++;
  }
  if (s.size() > target) s.resize(target);
  int edits = fdp.ConsumeIntegralInRange<int>(0, 3);
  for (int i = 0; i < edits && !s.empty(); i++) {
    size_t pos = fdp.ConsumeIntegralInRange<size_t>(0, s.size() - 1);
    int what = fdp.ConsumeIntegralInRange<int>(0, 3);
    if (what == 0) s[pos] = (char)fdp.ConsumeIntegral<uint8_t>();
    else if (what == 1) s.insert(pos, pieces[fdp.ConsumeIntegralInRange<size_t>(0, sizeof pieces / sizeof *pieces - 1)]);
    else if (what == 2) s.erase(pos, 1);
    else s[pos] = sep[0];
  }
  return s;
}

static std::string gen_sig(FuzzedDataProvider& fdp) {
  std::string s;
  int mode = fdp.ConsumeIntegralInRange<int>(0, 6);
  if (mode == 6) {  // bracket structure: well-nested containers, then swap two characters / flip a bracket kind
    static const char* blocks[] = {"(ii)", "a{ss}", "(a{ii}i)", "a{s(ii)}", "a(ii)", "(a{s(ii)})", "a{sa{ii}}", "((i)a{ss})", "(ia{ii})", "a{i(a{ss})}"};
    int n = fdp.ConsumeIntegralInRange<int>(1, 3); for (int i = 0; i < n; i++) s += blocks[fdp.ConsumeIntegralInRange<size_t>(0, 9)];
    int sw = fdp.ConsumeIntegralInRange<int>(0, 2);
    for (int i = 0; i < sw; i++) { size_t a = fdp.ConsumeIntegralInRange<size_t>(0, s.size() - 1), b = fdp.ConsumeIntegralInRange<size_t>(0, s.size() - 1); std::swap(s[a], s[b]); }
    return s;
  }
  if (mode == 0) {  // nested arrays around 32
    int n = fdp.ConsumeIntegralInRange<int>(29, 35); s.assign(n, 'a'); s += fdp.ConsumeBool() ? "i" : "(s)";
  } else if (mode == 1) {  // nested structs around 32
    int n = fdp.ConsumeIntegralInRange<int>(29, 35); s.assign(n, '('); s += "y"; s.append(n, ')');
  } else if (mode == 2) {  // interleaved a( a( ... : the UNSPEC zone plus neighbours
    int n = fdp.ConsumeIntegralInRange<int>(14, 36); for (int i = 0; i < n; i++) s += fdp.ConsumeBool() ? "a(" : "("; s += "i";
    for (size_t i = 0, c = 0; i < s.size(); i++) if (s[i] == '(') c++; 
    size_t opens = 0; for (char ch : s) if (ch == '(') opens++;
    s.append(opens, ')');
  } else if (mode == 3) {  // length around 255
    size_t target = fdp.ConsumeIntegralInRange<size_t>(250, 260);
    static const char* blocks[] = {"i", "s", "as", "(ii)", "a{sv}", "v", "a(yay)", "x", "aai"};
    while (s.size() < target) { const char* b = blocks[fdp.ConsumeIntegralInRange<size_t>(0, 8)]; if (s.size() + strlen(b) > target) b = "y"; s += b; }
  } else if (mode == 4) {  // dict entries
    static const char* blocks[] = {"a{sv}", "a{s(ii)}", "a{vs}", "a{ss}s", "{ss}", "a{s}", "a{sss}", "a{}", "a{a{ss}s}", "a{sa{sa{sv}}}", "(a{ss})", "a({ss})", "aa{ss}"};
    int n = fdp.ConsumeIntegralInRange<int>(1, 4); for (int i = 0; i < n; i++) s += blocks[fdp.ConsumeIntegralInRange<size_t>(0, 12)];
  } else {
    s = fdp.ConsumeRandomLengthString(64);
  }
  int edits = fdp.ConsumeIntegralInRange<int>(0, 2);
  static const char codes[] = "ybnqiuxtdsoghav(){}zre";
  for (int i = 0; i < edits && !s.empty(); i++) {
    size_t pos = fdp.ConsumeIntegralInRange<size_t>(0, s.size() - 1);
    int what = fdp.ConsumeIntegralInRange<int>(0, 2);
    char c = codes[fdp.ConsumeIntegralInRange<size_t>(0, sizeof codes - 2)];
    if (what == 0) s[pos] = c; else if (what == 1) s.insert(pos, 1, c); else s.erase(pos, 1);
  }
  return s;
}

extern "C" int LLVMFuzzerTestOneInput(const uint8_t* data, size_t size) {
  stats_init("C16");
  FuzzedDataProvider fdp(data, size);
  Kind k = (Kind)fdp.ConsumeIntegralInRange<int>(0, K_N - 1);
  std::string s;
  if (k == K_SIG || k == K_SINGLE) s = gen_sig(fdp);
  else if (k == K_UTF8 && fdp.ConsumeBool()) s = fdp.ConsumeRemainingBytesAsString();
  else s = gen_name(fdp, k);
  if (s.size() > 4096) s.resize(4096);
  note_case(k, s);
  check_one(k, s, 2);
  return 0;
}
#endif
