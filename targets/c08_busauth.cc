// C08 (daemon level) — raw handshakes against the in-process bus on sockets
// connected under uid 0 and uid != 0: Hello is answered iff the peer completed a
// valid exchange for its own socket identity followed by BEGIN (and the bus admits
// the user); the identity the bus reports (GetConnectionCredentials) is the
// socket's; message bytes written before BEGIN are never treated as messages.
#include "dbusx.h"
#include "gen.h"
#include "bushelp.h"
#include "stats.h"
#include <unistd.h>

using namespace vp;

static std::string hexs(const std::string& s) { static const char* d = "0123456789abcdef"; std::string o; for (unsigned char c : s) { o += d[c >> 4]; o += d[c & 15]; } return o; }

static std::pair<long, int> run_history(const uint8_t* data, size_t size, bool count) {
  FDP f(data, size);
  Hist h("C08");
  BusLimits lim;
  bool allow_anon = rare(f, 3);
  bool anon_mech = rare(f, 2);   // <auth>ANONYMOUS</auth> listed: the mechanism is offered at all
  bool allow_all_users = !rare(f, 4);
  std::string pol = std::string("<policy context=\"default\">\n") + (allow_all_users ? "  <allow user=\"*\"/>\n" : "") + "  <allow send_destination=\"*\"/>\n  <allow receive_sender=\"*\"/>\n  <allow own=\"*\"/>\n</policy>\n";
  h.start(make_config("session", pol, lim, std::string(anon_mech ? "<auth>ANONYMOUS</auth>\n" : "") + (allow_anon ? "<allow_anonymous/>\n" : "")));
  h.log.push_back(std::string("bus: ANONYMOUS mechanism ") + (anon_mech ? "offered" : "not offered") + ", allow_anonymous=" + (allow_anon ? "yes" : "no") + " user rule=" + (allow_all_users ? "allow *" : "default (same user / root only)"));
  int nconn = 1 + (int)pick(f, 4);
  bool nontrivial = false;
  for (int ci = 0; ci < nconn; ci++) {
    int uidx = (int)pick(f, 2);
    uid_t uid = uidx ? 1 : (uid_t)-1;
    unsigned long sockuid = uidx ? 1 : 0;
    int c = h.bus.connect_raw(uid); h.model.add_conn();
    // script
    std::string script(1, '\0');
    bool valid = false, began = false, anon = false; int rejections = 0; bool waiting_begin = false; bool dead = false;
    std::string hello_before_begin;
    int nl = 1 + (int)pick(f, 6);
    std::vector<std::string> lines;
    for (int i = 0; i < nl && !began && !dead; i++) {
      int k = (int)pick(f, 10);
      std::string line;
      if (k <= 2) { char b[16]; snprintf(b, sizeof b, "%lu", sockuid); line = "AUTH EXTERNAL " + hexs(b); if (!waiting_begin) { waiting_begin = true; valid = true; anon = false; } }
      else if (k == 3) { line = std::string("AUTH EXTERNAL ") + hexs(sockuid ? "0" : "1"); if (!waiting_begin) { rejections++; } }
      else if (k == 4) { line = "AUTH ANONYMOUS 7472616365"; if (!waiting_begin) { if (anon_mech) { waiting_begin = true; valid = true; anon = true; } else rejections++; } }
      else if (k == 5) { line = "CANCEL"; if (waiting_begin) { waiting_begin = false; valid = false; rejections++; } }
      else if (k == 6) { line = "NEGOTIATE_UNIX_FD"; }
      else if (k == 7) { line = "AUTH KERBEROS_V4"; if (!waiting_begin) rejections++; }
      else { line = "BEGIN"; if (waiting_begin) began = true; else dead = true; }
      if (rejections >= 6) dead = true;
      lines.push_back(line);
      script += line + "\r\n";
      // a binary Hello smuggled in before BEGIN must never be answered as a message
      if (!began && !dead && rare(f, 8)) { Msg m; m.type = T_CALL; m.serial = 99; m.set_str(F_PATH, 'o', BUS_PATH); m.set_str(F_DESTINATION, 's', BUS_NAME); m.set_str(F_INTERFACE, 's', BUS_IFACE); m.set_str(F_MEMBER, 's', "Hello"); hello_before_begin = encode_msg(m); script += hello_before_begin; dead = true; lines.push_back("<binary Hello before BEGIN>"); }
    }
    std::string ls; for (auto& l : lines) ls += l + " | ";
    h.log.push_back("client" + std::to_string(c) + " uid " + std::to_string(sockuid) + ": " + ls);
    h.bus.send_bytes(c, script);
    h.bus.client(c).begun = true;
    h.bus.pump();
    { auto fr = h.bus.drain(c); for (auto& x : fr) if (x.valid && (x.msg.type == T_RETURN || x.msg.type == T_ERROR)) h.fail("message-before-begin-answered", "the bus answered a binary message that preceded BEGIN: " + frame_brief(x.msg)); Bus::free_frames(fr); }
    bool admitted = began && valid && !dead && (anon ? allow_anon : (allow_all_users || sockuid == 0));
    // now try Hello
    uint32_t serial = h.bus.client(c).serial;
    h.bus.bus_call(c, "Hello");
    h.bus.pump();
    auto fr = h.bus.drain(c);
    std::string name;
    for (auto& x : fr) if (x.valid && x.msg.type == T_RETURN && x.msg.fu32(F_REPLY_SERIAL) == serial && x.msg.body.size() == 1) name = x.msg.body[0].s;
    Bus::free_frames(fr);
    h.log.push_back("  -> model " + std::string(admitted ? "admitted" : "not admitted") + ", Hello " + (name.empty() ? "unanswered" : "answered " + name));
    if (!name.empty() && !admitted) h.fail("authenticated-without-valid-exchange", "Hello was answered (" + name + ") although the peer did not complete a valid exchange for its own identity followed by BEGIN, or the bus does not admit it");
    if (name.empty() && admitted) h.fail("valid-exchange-not-admitted", "a peer that completed a valid exchange + BEGIN and is admitted by the bus' rules got no Hello reply; handshake text: " + h.bus.client(c).text);
    if (!name.empty()) {
      nontrivial = true;
      Hist::all_uniques.insert(name); h.bus.client(c).unique = name;
      RecvFrame r; std::vector<RecvFrame> oth;
      sync_call(h.bus, c, "GetConnectionCredentials", {Value::str('s', name)}, &r, &oth); Bus::free_frames(oth);
      if (!(r.valid && r.msg.type == T_RETURN && r.msg.body.size() == 1 && r.msg.body[0].t == 'a')) h.fail("credentials-query", "GetConnectionCredentials failed");
      bool have_uid = false; unsigned long got = 0;
      for (auto& e : r.msg.body[0].kids) if (e.kids.size() == 2 && e.kids[0].s == "UnixUserID" && e.kids[1].kids.size() == 1) { have_uid = true; got = (unsigned long)e.kids[1].kids[0].u; }
      if (anon) { if (have_uid) h.fail("identity-wrong", "anonymous connection reports a uid"); }
      else if (!have_uid || got != sockuid) h.fail("identity-wrong", "the bus reports uid " + (have_uid ? std::to_string(got) : std::string("(none)")) + " for a connection whose socket credentials are uid " + std::to_string(sockuid));
    }
    if (rare(f, 2)) h.bus.close_client(c);
    h.bus.pump();
    for (size_t j = 0; j < h.bus.nclients(); j++) if (h.open((int)j)) { auto g = h.bus.drain((int)j); Bus::free_frames(g); }
  }
  if (count) stats_class(nontrivial ? "bus:admitted-some" : "bus:admitted-none");
  if (count) { std::string k = h.key(); uint64_t hh = fnv1a(k.data(), k.size()); stats_nontrivial(hh); if (stats_want_sample(hh)) stats_sample(hh, h.sample()); }
  return h.finish();
}

extern "C" int LLVMFuzzerTestOneInput(const uint8_t* data, size_t size) {
  stats_init("C08");
  stats_exec();
  auto r = run_history(data, size, true);
  if (r.first != 0 || r.second != 0) {
    auto r2 = run_history(data, size, false);
    if (r2.first != 0) violation("leak", "libdbus allocations outstanding after bus shutdown (repeatable): " + std::to_string(r2.first));
    if (r2.second != 0) violation("fd-leak", "descriptors still open after bus shutdown (repeatable): " + std::to_string(r2.second));
  }
  return 0;
}
