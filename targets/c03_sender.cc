// C03 — the bus stamps the true sender; unique names are unique forever.
// Histories over 2-5 raw clients on a permissive bus with an eavesdropper and a
// monitor as observers.  Clients write messages whose headers carry a forged
// SENDER, unknown field codes 11..255 with generated variant payloads and
// CONTAINER_INSTANCE, in any field order; Hello is repeated or omitted; clients
// disconnect and reconnect.  Every frame anybody receives is checked.
#include "dbusx.h"
#include "gen.h"
#include "bushelp.h"
#include "stats.h"
#include <unistd.h>

extern "C" void _bus_verif_preset_unique_name_counter(int major, int minor);

using namespace vp;

static bool is_token(const Msg& m, int* writer) {
  if (m.body.empty() || m.body[0].t != 's') return false;
  const std::string& s = m.body[0].s;
  if (s.size() < 3 || s[0] != 'w') return false;
  *writer = atoi(s.c_str() + 1);
  return s.find('-') != std::string::npos;
}

static std::pair<long, int> run_history(const uint8_t* data, size_t size, bool count) {
  FDP f(data, size);
  Hist h("C03");
  BusLimits lim;
  h.start(make_config("session", "", lim));
  // hook H4: sometimes start the (process-global) unique-name counters just below the roll-over of the minor number, so
  // that the names handed out in this history cross it.  A new bus begins here, so the set of names seen so far restarts too.
  bool near_wrap = rare(f, 6);
  if (near_wrap) { Hist::all_uniques.clear(); _bus_verif_preset_unique_name_counter(2 + (int)pick(f, 1000000), 0x7fffffff - (int)pick(f, 5)); }
  int nclients = 2 + (int)pick(f, 4);
  if (count && near_wrap) stats_class("names:near-rollover");
  // clients 0..nclients-1: connected + authenticated; Hello happens as a history step (clients 0,1 right away)
  for (int i = 0; i < nclients; i++) h.add_client(i < 2);
  int spy = h.add_client(); h.add_rule(spy, "eavesdrop='true'");
  // monitor: raw client that calls BecomeMonitor with no rules
  int mon = h.add_client();
  {
    uint32_t s = h.bus.call(mon, BUS_NAME, BUS_PATH, "org.freedesktop.DBus.Monitoring", "BecomeMonitor", {Value::array("s"), Value::basic('u', 0)});
    h.bus.pump();
    auto fr = h.bus.drain(mon);
    bool ok = false; for (auto& x : fr) if (x.valid && x.msg.type == T_RETURN && x.msg.fu32(F_REPLY_SERIAL) == s) ok = true;
    Bus::free_frames(fr);
    if (!ok) h.fail("setup", "BecomeMonitor failed");
    Out o; h.model.disconnect(mon, o);   // to everybody else a new monitor looks like a disconnect
    h.model.conns[mon].monitor = true;
    h.log.push_back("client" + std::to_string(mon) + " became a monitor");
    o.erase(mon);
    for (auto& kv : o) for (auto& e : kv.second) (void)e;
    // NameOwnerChanged(unique -> "") reaches nobody with rules except the spy (eavesdrop='true' rule matches broadcasts too)
    for (size_t j = 0; j < h.bus.nclients(); j++) if (h.open((int)j)) { auto g = h.bus.drain((int)j); Bus::free_frames(g); }   // (C18 checks what others see here)
  }
  int total = (int)h.bus.nclients();
  std::vector<bool> registered(total, false);
  for (int i = 0; i < total; i++) registered[i] = !h.uniq(i).empty();
  registered[mon] = false;
  uint32_t tok = 0;
  bool nontrivial = false;
  int nsteps = 2 + (int)pick(f, 20);

  auto check_monitor = [&]() {
    auto fr = h.bus.drain(mon);
    if (h.bus.client(mon).eof) h.fail("monitor-disconnected", "the monitor was disconnected");
    for (auto& x : fr) {
      if (!x.valid) h.fail("invalid-frame", "monitor received a frame the independent decoder rejects: " + x.why);
      const Msg& m = x.msg;
      for (auto& fl : m.fields) if (fl.code > 10 || fl.code == F_CONTAINER_INSTANCE) h.fail("field-leaked", "monitor received header field " + std::to_string(fl.code) + ": " + frame_brief(m));
      std::string snd = m.fstr(F_SENDER);
      int w;
      if (is_token(m, &w) && w >= 0 && w < total) {
        std::string want = h.uniq(w);
        if (!(snd == want && !want.empty()) && snd != ":not.active.yet") h.fail("sender-wrong", "monitor copy of a message written by client" + std::to_string(w) + " (" + want + ") carries sender '" + snd + "': " + frame_brief(m));
        if (snd == ":not.active.yet" && registered[w]) h.fail("sender-wrong", "placeholder sender on a message of registered client" + std::to_string(w));
      } else if (snd != BUS_NAME) {
        bool known = false; for (int i = 0; i < total; i++) if (!h.uniq(i).empty() && h.uniq(i) == snd) known = true;
        if (!known && snd != ":not.active.yet") h.fail("sender-wrong", "monitor received a frame with sender '" + snd + "' that is neither the bus nor a connection: " + frame_brief(m));
      }
    }
    Bus::free_frames(fr);
  };

  for (int step = 0; step < nsteps; step++) {
    int c = (int)pick(f, nclients);
    int op = (int)pick(f, 12);
    if (!h.open(c)) {
      if (op == 0) {  // reconnect: a brand new connection (new index), Hello later
        // not modelled as the same client: connection identity is the socket
      }
      continue;
    }
    if (op == 0 && !registered[c]) { h.hello(c); registered[c] = true; check_monitor(); continue; }
    if (op == 1 && registered[c]) {
      // second Hello: must fail and change nothing
      RecvFrame r; std::vector<RecvFrame> oth;
      sync_call(h.bus, c, "Hello", {}, &r, &oth);
      h.log.push_back("client" + std::to_string(c) + " repeats Hello");
      if (!(r.valid && r.msg.type == T_ERROR)) h.fail("second-hello", "a second Hello did not fail: " + (r.valid ? frame_brief(r.msg) : std::string("no reply")));
      if (r.msg.fstr(F_SENDER) != BUS_NAME) h.fail("sender-wrong", "error reply to second Hello has sender '" + r.msg.fstr(F_SENDER) + "'");
      Bus::free_frames(oth);
      Out o; h.compare_all(o, -1, 0, "after a repeated Hello");   // spy's optional copies
      { auto fr = h.bus.drain(spy); Bus::free_frames(fr); }
      check_monitor();
      continue;
    }
    if (op == 2 && nclients > 2) {
      h.log.push_back("client" + std::to_string(c) + " (" + h.uniq(c) + ") closes");
      h.bus.close_client(c);
      Out o; if (registered[c]) h.model.disconnect(c, o); else h.model.conns[c].alive = false;
      h.model.add_optional_eavesdrop(o, -1, nullptr);
      h.bus.pump();
      h.compare_all(o, -1, 0, "after a close");
      check_monitor();
      continue;
    }
    // a message with forged / unknown header content
    Msg m; m.be = f.ConsumeBool();
    m.type = 1 + (uint8_t)pick(f, 4);
    m.flags = (uint8_t)pick(f, 4);
    int dk = (int)pick(f, 7);
    std::string dest;
    if (dk <= 2) { int t = (int)pick(f, nclients); dest = h.uniq(t); if (dest.empty()) dest = ":1.999999"; }
    else if (dk == 3) dest = BUS_NAME;
    else if (dk == 4) dest = "com.vp.Nobody";
    // dk 5,6: no destination (broadcast for signals)
    bool forged = false;
    std::vector<Field> fs;
    auto addS = [&](uint8_t code, char t, const std::string& s) { Field x; x.code = code; x.v = Value::str(t, s); fs.push_back(x); };
    if (m.type == T_CALL || m.type == T_SIGNAL) { addS(F_PATH, 'o', dest == BUS_NAME ? BUS_PATH : "/c3"); addS(F_MEMBER, 's', dest == BUS_NAME ? (f.ConsumeBool() ? "GetId" : "ListNames") : "Tok"); }
    if (m.type == T_SIGNAL || (dest == BUS_NAME && f.ConsumeBool())) addS(F_INTERFACE, 's', dest == BUS_NAME ? BUS_IFACE : "com.vp.C3");
    if (m.type == T_ERROR) addS(F_ERROR_NAME, 's', "com.vp.Err");
    if (m.type == T_ERROR || m.type == T_RETURN) { Field x; x.code = F_REPLY_SERIAL; x.v = Value::basic('u', 500 + pick(f, 50)); fs.push_back(x); }
    if (!dest.empty()) addS(F_DESTINATION, 's', dest);
    if (!rare(f, 4)) {  // forged SENDER
      int k = (int)pick(f, 9);
      std::string own = h.uniq(c).empty() ? std::string(":1.7") : h.uniq(c);
      std::string fake = k == 0 ? BUS_NAME : k == 1 ? ":1.424242" : k == 2 ? h.uniq((c + 1) % nclients) : k == 3 ? "com.vp.Fake"
                       : k == 4 ? own + std::to_string(pick(f, 10))          // names that extend / abbreviate / equal the writer's own name
                       : k == 5 ? own + ".x" : k == 6 ? own.substr(0, own.size() - 1) : k == 7 ? own : own + "a";
      if (fake.empty() || !is_bus_name(fake)) fake = own + "0";   // (":1.0" minus its last character is not a name: such a frame is invalid and belongs to C01/C10)
      addS(F_SENDER, 's', fake); forged = true;
    }
    if (rare(f, 2)) { int nu = 1 + (int)pick(f, 2); for (int i = 0; i < nu; i++) { Field x; x.code = (uint8_t)f.ConsumeIntegralInRange<int>(11, 255); GenCfg g; g.max_depth = 3; g.allow_h = false; x.v = gen_value_of(f, g, gen_sct(f, g, 1)); fs.push_back(x); } forged = true; }
    if (rare(f, 3)) { addS(F_CONTAINER_INSTANCE, 'o', "/forged/container"); forged = true; }
    m.body.push_back(Value::str('s', "w" + std::to_string(c) + "-" + std::to_string(++tok)));
    if (f.ConsumeBool()) m.body.push_back(Value::basic('x', f.ConsumeIntegral<uint64_t>()));
    { Field x; x.code = F_SIGNATURE; x.v = Value::str('g', m.body_sig()); fs.push_back(x); }
    for (size_t i = fs.size(); i > 1; i--) std::swap(fs[i - 1], fs[pick(f, i)]);
    m.fields = fs;
    m.serial = h.bus.client(c).serial++;
    h.log.push_back("client" + std::to_string(c) + (registered[c] ? "(" + h.uniq(c) + ")" : "(unregistered)") + " writes " + m.show().substr(0, 260));
    h.bus.send_bytes(c, encode_msg(m));
    if (!h.bus.pump()) h.fail("spin", "bus main loop did not become idle");

    Out o;
    if (!registered[c]) {
      // [property] a non-Hello message from an unregistered client is delivered to nobody; the client is disconnected,
      // or (calls to the bus driver) answered with an error
      auto fr = h.bus.drain(c);
      bool eof = h.bus.client(c).eof;
      if (!eof) {
        // not disconnected: then it must have been refused or ignored -- whatever comes back is from the bus, never a delivery
        for (auto& x : fr) {
          if (!x.valid) h.fail("invalid-frame", x.why);
          if (x.msg.type != T_ERROR && !(dest.empty() && m.type != T_SIGNAL)) h.fail("unregistered-not-refused", "unregistered client wrote a message and got a non-error answer: " + frame_brief(x.msg));
          if (x.msg.fstr(F_SENDER) != BUS_NAME) { if (!kf_open("C03-no-sender-on-local-replies")) h.fail("sender-missing", "answer to an unregistered client carries sender '" + x.msg.fstr(F_SENDER) + "': " + frame_brief(x.msg)); kf_hit("C03-no-sender-on-local-replies"); }
        }
        if (!dest.empty() && dest != BUS_NAME) h.fail("unregistered-not-refused", "unregistered client addressed a peer and was not disconnected");
        if (dest.empty() && m.type == T_SIGNAL) h.fail("unregistered-not-refused", "unregistered client broadcast a signal and was not disconnected");
      } else { h.model.conns[c].alive = false; h.bus.close_client(c); }
      Bus::free_frames(fr);
      // nobody else may see anything derived from it (the spy may see nothing either: the sender is not active)
      for (int j = 0; j < total; j++) if (j != c && j != mon && h.open(j)) { auto g = h.bus.drain(j); for (auto& x : g) { int w; if (x.valid && is_token(x.msg, &w) && w == c) h.fail("unregistered-delivered", "a message of an unregistered client reached client" + std::to_string(j) + ": " + frame_brief(x.msg)); } Bus::free_frames(g); }
      check_monitor();
      continue;
    }
    if (dest == BUS_NAME) {
      // answered by the bus: exactly one reply/error, sender = the bus
      auto fr = h.bus.drain(c);
      int replies = 0;
      for (auto& x : fr) {
        if (!x.valid) h.fail("invalid-frame", x.why);
        if ((x.msg.type == T_RETURN || x.msg.type == T_ERROR) && x.msg.fu32(F_REPLY_SERIAL) == m.serial) { replies++; if (x.msg.fstr(F_SENDER) != BUS_NAME) h.fail("sender-wrong", "reply from the bus carries sender '" + x.msg.fstr(F_SENDER) + "': " + frame_brief(x.msg)); }
        for (auto& fl : x.msg.fields) if (fl.code > 10 || fl.code == F_CONTAINER_INSTANCE) h.fail("field-leaked", "frame from the bus carries field " + std::to_string(fl.code));
      }
      if (m.type == T_CALL && replies != 1 && !(m.flags & 1)) h.fail("driver-reply-count", "call to the bus driver got " + std::to_string(replies) + " answers:\n" + show_frames(fr));
      Bus::free_frames(fr);
      // the spy may see the call: if it does, it must be stamped
      auto g = h.bus.drain(spy);
      Msg st = h.model.stamp(m, c);
      for (auto& x : g) { int w; if (x.valid && is_token(x.msg, &w) && w == c) { std::string d = frame_vs_exp(x.msg, exp_forward(st)); if (!d.empty()) h.fail("eavesdropped-copy-wrong", "spy's copy of a driver call: " + d + " " + frame_brief(x.msg)); if (forged) nontrivial = true; } }
      Bus::free_frames(g);
      for (int j = 0; j < nclients; j++) if (j != c && h.open(j)) { auto q = h.bus.drain(j); if (!q.empty()) h.fail("frames-differ", "client" + std::to_string(j) + " received frames after somebody else's driver call:\n" + show_frames(q)); }
      check_monitor();
      continue;
    }
    if (dest.empty() && m.type != T_SIGNAL) {
      // [U] interpreted by the bus' own connection (Peer interface / unknown method); whatever comes back must carry the bus as sender
      auto fr = h.bus.drain(c);
      for (auto& x : fr) {
        if (!x.valid) h.fail("invalid-frame", x.why);
        if (x.msg.fstr(F_SENDER) != BUS_NAME && !kf_open("C03-no-sender-on-local-replies")) h.fail("sender-missing", "reply to a destination-less " + std::string(m.type == T_CALL ? "call" : "message") + " carries sender '" + x.msg.fstr(F_SENDER) + "': " + frame_brief(x.msg));
        if (x.msg.fstr(F_SENDER) != BUS_NAME) kf_hit("C03-no-sender-on-local-replies");
      }
      Bus::free_frames(fr);
      for (int j = 0; j < total; j++) if (j != c && j != mon && h.open(j)) { auto q = h.bus.drain(j); for (auto& x : q) { int w; if (x.valid && is_token(x.msg, &w) && w == c) h.fail("delivered-to-others", "destination-less non-signal reached client" + std::to_string(j)); } Bus::free_frames(q); }
      check_monitor();
      continue;
    }
    h.model.route(c, m, o);
    h.model.add_optional_eavesdrop(o, -1, nullptr);
    bool delivered = false; for (auto& kv : o) for (auto& e : kv.second) if (e.full && !e.optional) delivered = true;
    h.compare_all(o, -1, 0, "after a forged message");
    if (forged && delivered) { int reg = 0; for (int i = 0; i < nclients; i++) if (registered[i] && h.open(i)) reg++; if (reg >= 2) nontrivial = true; }
    check_monitor();
  }
  // registry agrees with the model's name <-> connection map
  { int obs = h.bus.connect_raw(); if (!h.bus.auth(obs) || h.bus.hello(obs).empty()) h.fail("setup", "observer could not register");
    BusModel m2 = h.model; int mo = m2.add_conn(); m2.conns[mo].registered = true; m2.conns[mo].unique = h.bus.client(obs).unique;
    if (!Hist::all_uniques.insert(h.bus.client(obs).unique).second) h.fail("unique-name-reused", "observer got a reused unique name");
    for (int j = 0; j < total; j++) if (h.open(j)) { auto fr = h.bus.drain(j); Bus::free_frames(fr); }
    std::vector<std::string> names; for (int i = 0; i < total; i++) if (!h.uniq(i).empty()) names.push_back(h.uniq(i));
    std::string d = check_registry(h.bus, obs, m2, names);
    if (!d.empty()) h.fail("registry-differs", d); }
  if (count) stats_class(nontrivial ? "nontrivial" : "trivial");
  if (nontrivial && count) { std::string k = h.key(); uint64_t hh = fnv1a(k.data(), k.size()); stats_nontrivial(hh); if (stats_want_sample(hh)) stats_sample(hh, h.sample()); }
  return h.finish();
}

extern "C" int LLVMFuzzerTestOneInput(const uint8_t* data, size_t size) {
  stats_init("C03");
  stats_exec();
  auto r = run_history(data, size, true);
  if (r.first != 0 || r.second != 0) {
    auto r2 = run_history(data, size, false);
    if (r2.first != 0) violation("leak", "libdbus allocations outstanding after bus shutdown (repeatable): " + std::to_string(r2.first));
    if (r2.second != 0) violation("fd-leak", "descriptors still open after bus shutdown (repeatable): " + std::to_string(r2.second));
  }
  return 0;
}
