// C08 — a peer counts as authenticated only after a valid SASL exchange.
// In-process server handshake object (DBusAuth) driven with generated command
// scripts under chosen socket credentials and allowed-mechanism sets, every line
// fed in generated chunks; the harness plays the client interactively (it reads
// the keyring and answers DBUS_COOKIE_SHA1 challenges correctly or wrongly on
// purpose).  Oracle: a model of the specification's server state machine; the
// security core is checked in the strong direction (authenticated => a complete
// valid exchange for exactly the identity the object reports, then BEGIN).
#include "dbusx.h"
extern "C" {
#include <dbus/dbus-auth.h>
#include <dbus/dbus-credentials.h>
}
#include "gen.h"
#include "sha1.h"
#include "stats.h"
#include <ctime>
#include <sys/stat.h>
#include <cstdio>
#include <cstdlib>
#include <cstring>
#include <sys/stat.h>
#include <unistd.h>
#include <fstream>
#include <sstream>

using namespace vp;

enum St8 { WAIT_AUTH, WAIT_DATA, WAIT_BEGIN, AUTHED, DISC };
enum Mech { M_NONE, M_EXT, M_COOKIE, M_ANON };

static std::vector<std::string> g_log;
static void fail(const char* kind, const std::string& what) {
  std::string s; for (auto& l : g_log) s += "  " + l + "\n";
  violation(kind, what + "\nscript:\n" + s);
}
static std::string hexs(const std::string& s) { static const char* d = "0123456789abcdef"; std::string o; for (unsigned char c : s) { o += d[c >> 4]; o += d[c & 15]; } return o; }
static bool unhex(const std::string& h, std::string* out) {
  if (h.size() % 2) return false;
  out->clear();
  for (size_t i = 0; i < h.size(); i += 2) { int v = 0; for (int k = 0; k < 2; k++) { char c = h[i + k]; int d = c >= '0' && c <= '9' ? c - '0' : c >= 'a' && c <= 'f' ? c - 'a' + 10 : c >= 'A' && c <= 'F' ? c - 'A' + 10 : -1; if (d < 0) return false; v = v * 16 + d; } *out += (char)v; }
  return true;
}
static std::string printable(const std::string& s) { std::string o; for (unsigned char c : s.substr(0, 90)) { if (c >= 0x20 && c < 0x7f) o += (char)c; else { char b[8]; snprintf(b, sizeof b, "\\x%02x", c); o += b; } } if (s.size() > 90) o += "...(" + std::to_string(s.size()) + ")"; return o; }

struct Model {
  St8 st = WAIT_AUTH; Mech mech = M_NONE; int failures = 0;
  bool have_creds = true; unsigned long sock_uid = 0; bool fd_possible = true;
  bool allow_ext = true, allow_cookie = true, allow_anon = true;
  std::string identity; bool asked = false;
  // cookie state
  std::string schal, ctx; long cookie_id = -1;
  // result
  bool auth_anon = false; unsigned long auth_uid = 0;
  std::string expect;   // class of the single expected output line, "" = none
  void rejected() { expect = "REJECTED"; identity.clear(); asked = false; mech = M_NONE; failures++; st = failures >= 6 ? DISC : WAIT_AUTH; }
};

static std::string g_home;
static std::string cookie_for(const std::string& ctx, long id) {
  std::ifstream in(g_home + "/.dbus-keyrings/" + ctx);
  std::string line;
  while (std::getline(in, line)) { std::istringstream is(line); long i; long ts; std::string c; if (is >> i >> ts >> c) if (i == id) return c; }
  return "";
}
static bool user_to_uid(const std::string& s, unsigned long* uid, bool need_db) {
  if (s.empty()) return false;
  bool num = true; for (char c : s) if (c < '0' || c > '9') num = false;
  if (num) { *uid = strtoul(s.c_str(), nullptr, 10); if (need_db && *uid != 0 && *uid != 1 && *uid != 2) return false; return true; }
  if (s == "root") { *uid = 0; return true; }
  if (s == "daemon") { *uid = 1; return true; }
  if (s == "bin") { *uid = 2; return true; }
  return false;
}

extern "C" int LLVMFuzzerTestOneInput(const uint8_t* data, size_t size) {
  stats_init("C08");
  stats_exec();
  FDP f(data, size);
  g_log.clear();
  if (g_home.empty()) {
    char cwd[3000]; if (!getcwd(cwd, sizeof cwd)) _exit(2);
    g_home = std::string(cwd) + "/vp-home-" + std::to_string(getpid());
    mkdir(g_home.c_str(), 0700);
    setenv("DBUS_TEST_HOMEDIR", g_home.c_str(), 1);
  }
  Model M;
  // ---- sometimes the keyring already holds cookies of various ages: expired (> 7 min), too old to be handed out again
  // (> 5 min), fresh, and dated in the future beyond the tolerated clock skew.  Whatever the server then names in a
  // challenge must be a cookie it may still use [S DBUS_COOKIE_SHA1: "...cookies that are too old are deleted / not used"].
  bool aged_keyring = rare(f, 3);
  if (aged_keyring) {
    mkdir((g_home + "/.dbus-keyrings").c_str(), 0700);
    long now = (long)time(nullptr);
    static const long ages[] = {-900, -500, -420, -330, -301, -200, -10, 0, 400, 100000};
    std::string txt; int n = 1 + (int)pick(f, 5);
    for (int i = 0; i < n; i++) { long ts = now + ages[pick(f, 10)]; char line[200]; snprintf(line, sizeof line, "%ld %ld %s\n", 1000 + (long)pick(f, 100000) * 7 + i, ts, sha1_hex("vp-secret-" + std::to_string(i) + std::to_string(ts)).c_str()); txt += line; }
    std::string kp = g_home + "/.dbus-keyrings/org_freedesktop_general";
    FILE* kf = fopen(kp.c_str(), "w"); if (kf) { fwrite(txt.data(), 1, txt.size(), kf); fclose(kf); chmod(kp.c_str(), 0600); }
    g_log.push_back("keyring pre-populated with " + std::to_string(n) + " cookies of generated ages");
    stats_class("keyring:aged");
  }
  // ---- configuration of the server side
  int credk = (int)pick(f, 4);
  M.have_creds = credk != 3; M.sock_uid = credk == 1 ? 1 : credk == 2 ? 4242 : 0;
  int mk = (int)pick(f, 6);
  const char* all[] = {"EXTERNAL", "DBUS_COOKIE_SHA1", "ANONYMOUS", nullptr};
  const char* ext_only[] = {"EXTERNAL", nullptr};
  const char* no_anon[] = {"EXTERNAL", "DBUS_COOKIE_SHA1", nullptr};
  const char* cookie_only[] = {"DBUS_COOKIE_SHA1", nullptr};
  const char* anon_only[] = {"ANONYMOUS", nullptr};
  const char** mechs = mk == 1 ? ext_only : mk == 2 ? no_anon : mk == 3 ? cookie_only : mk == 4 ? anon_only : mk == 5 ? all : nullptr;
  if (mechs) { M.allow_ext = M.allow_cookie = M.allow_anon = false; for (int i = 0; mechs[i]; i++) { if (!strcmp(mechs[i], "EXTERNAL")) M.allow_ext = true; if (!strcmp(mechs[i], "DBUS_COOKIE_SHA1")) M.allow_cookie = true; if (!strcmp(mechs[i], "ANONYMOUS")) M.allow_anon = true; } }
  M.fd_possible = f.ConsumeBool();
  DBusString guid; _dbus_string_init_const(&guid, "0123456789abcdef0123456789abcdef");
  DBusAuth* auth = _dbus_auth_server_new(&guid);
  if (!auth) return 0;
  if (mechs && !_dbus_auth_set_mechanisms(auth, mechs)) { _dbus_auth_unref(auth); return 0; }
  DBusCredentials* cr = _dbus_credentials_new();
  if (M.have_creds) { _dbus_credentials_add_unix_uid(cr, M.sock_uid); _dbus_credentials_add_pid(cr, 4321); }
  _dbus_auth_set_credentials(auth, cr);
  _dbus_credentials_unref(cr);
  _dbus_auth_set_unix_fd_possible(auth, M.fd_possible);
  g_log.push_back(std::string("server: socket credentials ") + (M.have_creds ? "uid=" + std::to_string(M.sock_uid) : "none") + ", mechanisms " + (mechs ? std::string(mk == 1 ? "EXTERNAL" : mk == 2 ? "EXTERNAL,COOKIE" : mk == 3 ? "COOKIE" : mk == 4 ? "ANONYMOUS" : "all three") : "default(all)") + ", fd passing " + (M.fd_possible ? "possible" : "impossible"));

  std::string last_server_data;   // decoded payload of the last DATA line from the server
  std::string tail_after_begin;
  bool reached = false;
  std::string classes;
  int nlines = 1 + (int)pick(f, 14);
  auto run_work = [&](std::string* out) {
    DBusAuthState s;
    int guard = 0;
    while (true) {
      s = _dbus_auth_do_work(auth);
      if (s == DBUS_AUTH_STATE_HAVE_BYTES_TO_SEND) { const DBusString* b; if (_dbus_auth_get_bytes_to_send(auth, &b)) { out->append(_dbus_string_get_const_data(b), _dbus_string_get_length(b)); _dbus_auth_bytes_sent(auth, _dbus_string_get_length(b)); } }
      else if (s == DBUS_AUTH_STATE_WAITING_FOR_MEMORY) { if (++guard > 50) return s; }
      else return s;
      if (++guard > 2000) fail("spin", "_dbus_auth_do_work does not settle");
    }
  };
  DBusAuthState as = DBUS_AUTH_STATE_WAITING_FOR_INPUT;
  for (int li = 0; li < nlines && M.st != AUTHED && M.st != DISC; li++) {
    // ---- choose the next client line given the model state
    std::string line;
    int k = (int)pick(f, 20);
    auto ident = [&]() { int w = (int)pick(f, 7); char b[32]; snprintf(b, sizeof b, "%lu", M.sock_uid); return w == 0 ? std::string(b) : w == 1 ? std::string(M.sock_uid == 0 ? "1" : "0") : w == 2 ? "root" : w == 3 ? "daemon" : w == 4 ? "zz-nobody" : w == 5 ? "" : std::string(b); };
    if (M.st == WAIT_DATA && M.mech == M_COOKIE && k < 14) {
      // answer the challenge: correct, wrong hash, wrong cookie id's secret, malformed
      std::string cchal = "636c69656e746368616c";   // any token without blanks
      std::string cookie = cookie_for(M.ctx, M.cookie_id);
      int how = (int)pick(f, 8);
      std::string hash = sha1_hex(M.schal + ":" + cchal + ":" + cookie);
      std::string resp;
      if (how <= 1) resp = cchal + " " + hash;
      else if (how == 2) { std::string h2 = hash; h2[5] = h2[5] == 'a' ? 'b' : 'a'; resp = cchal + " " + h2; }
      else if (how == 3) resp = cchal + " " + sha1_hex(M.schal + ":" + cchal + ":" + cookie_for(M.ctx, M.cookie_id + 1) + "00");   // some other secret
      else if (how == 4) resp = cchal + hash;   // no blank
      else if (how == 5) resp = cchal + " ";     // empty hash
      else if (how == 6) resp = cchal + " " + hash.substr(0, 1 + pick(f, 39));   // proper prefix of the right hash
      else resp = cchal + " " + hash + "00";   // right hash plus trailing characters
      line = "DATA " + hexs(resp);
    } else if (M.st == WAIT_DATA && M.mech == M_EXT && k < 10) line = "DATA " + hexs(ident());
    else if (k <= 5) { static const char* ms[] = {"EXTERNAL", "DBUS_COOKIE_SHA1", "ANONYMOUS", "KERBEROS_V4"}; int mi = (int)pick(f, 4); line = std::string("AUTH ") + ms[mi]; int r = (int)pick(f, 4); if (r) { std::string id = mi == 1 ? (pick(f, 4) == 0 ? ident() : std::string(f.ConsumeBool() ? "root" : "0")) : mi == 2 ? std::string(f.ConsumeBool() ? "trace" : "tr\xc3\xa9") : ident(); if (r == 3) line += " zz"; else line += " " + hexs(id); } }
    else if (k == 6) line = "AUTH";
    else if (k == 7) line = "DATA " + hexs(ident());
    else if (k == 8) line = "DATA";
    else if (k == 9) line = "DATA z1";
    else if (k == 10) line = "CANCEL";
    else if (k == 11) line = f.ConsumeBool() ? "ERROR" : "ERROR \"something\"";
    else if (k <= 14) line = "BEGIN";
    else if (k == 15) line = "NEGOTIATE_UNIX_FD";
    else if (k == 16) line = f.ConsumeBool() ? "FOO bar" : "OK 1234";
    else if (k == 17) line = "AUTH \xc3\xa9xternal";
    else if (k == 18) line = std::string(f.ConsumeBool() ? 17000 : 300, 'A');
    else line = "auth EXTERNAL";
    g_log.push_back("C: " + printable(line));
    // ---- model transition
    M.expect.clear();
    std::string cmd = line.substr(0, line.find_first_of(" \t")), args;
    { size_t p = line.find_first_of(" \t"); if (p != std::string::npos) { size_t q = line.find_first_not_of(" \t", p); if (q != std::string::npos) args = line.substr(q); } }
    bool nonascii = false; for (unsigned char ch : line) if (ch >= 0x80) nonascii = true;
    auto mech_step = [&](const std::string& hexarg) {
      std::string d;
      if (!unhex(hexarg, &d)) { M.expect = "ERROR"; return; }   // bad hex: ERROR, state unchanged
      if (M.mech == M_EXT) {
        if (!M.have_creds) { M.rejected(); return; }
        if (!d.empty()) { if (!M.identity.empty()) { M.rejected(); return; } M.identity = d; }
        if (M.identity.empty() && !M.asked) { M.expect = "DATA"; M.asked = true; M.st = WAIT_DATA; return; }
        unsigned long want;
        if (M.identity.empty()) want = M.sock_uid; else { bool num = true; for (char ch : M.identity) if (ch < '0' || ch > '9') num = false; if (!num || !user_to_uid(M.identity, &want, false)) { M.rejected(); return; } }   // [S] EXTERNAL: the authorization identity is the decimal uid
        if (want == M.sock_uid) { M.expect = "OK"; M.st = WAIT_BEGIN; M.auth_anon = false; M.auth_uid = want; reached = true; } else M.rejected();
      } else if (M.mech == M_ANON) {
        if (!is_utf8(d) && !d.empty()) { M.rejected(); return; }
        M.expect = "OK"; M.st = WAIT_BEGIN; M.auth_anon = true; reached = true;
      } else if (M.mech == M_COOKIE) {
        if (M.st != WAIT_DATA) {
          unsigned long want;
          if (!d.empty()) { if (!M.identity.empty()) { M.rejected(); return; } M.identity = d; }
          if (!user_to_uid(d, &want, true)) { M.rejected(); return; }
          if (want != (unsigned long)getuid()) { M.rejected(); return; }   // only the server's own user
          M.expect = "DATA"; M.st = WAIT_DATA; M.auth_uid = want; reached = true;
        } else {
          size_t sp = d.find(' ');
          if (sp == std::string::npos) { M.rejected(); return; }
          std::string cchal = d.substr(0, sp), hash = d.substr(sp + 1);
          std::string cookie = cookie_for(M.ctx, M.cookie_id);
          if (!cookie.empty() && hash == sha1_hex(M.schal + ":" + cchal + ":" + cookie)) { M.expect = "OK"; M.st = WAIT_BEGIN; M.auth_anon = false; } else M.rejected();
        }
      }
    };
    if (line.size() > 16384) { M.st = DISC; }   // more than the handshake buffer allows
    else if (nonascii) M.expect = "ERROR";
    else if (M.st == WAIT_AUTH) {
      if (cmd == "AUTH") {
        if (args.empty()) M.rejected();
        else {
          std::string mname = args.substr(0, args.find_first_of(" \t")), resp; { size_t p = args.find_first_of(" \t"); if (p != std::string::npos) { size_t q = args.find_first_not_of(" \t", p); if (q != std::string::npos) resp = args.substr(q); } }
          Mech mm = mname == "EXTERNAL" && M.allow_ext ? M_EXT : mname == "DBUS_COOKIE_SHA1" && M.allow_cookie ? M_COOKIE : mname == "ANONYMOUS" && M.allow_anon ? M_ANON : M_NONE;
          if (mm == M_NONE) M.rejected(); else { M.mech = mm; mech_step(resp); }
        }
      } else if (cmd == "CANCEL" || cmd == "DATA") M.expect = "ERROR";
      else if (cmd == "BEGIN") M.st = DISC;
      else if (cmd == "ERROR") M.rejected();
      else M.expect = "ERROR";
    } else if (M.st == WAIT_DATA) {
      if (cmd == "AUTH") M.expect = "ERROR";
      else if (cmd == "CANCEL" || cmd == "ERROR") M.rejected();
      else if (cmd == "DATA") mech_step(args);
      else if (cmd == "BEGIN") M.st = DISC;
      else M.expect = "ERROR";
    } else if (M.st == WAIT_BEGIN) {
      if (cmd == "AUTH" || cmd == "DATA") M.expect = "ERROR";
      else if (cmd == "BEGIN") M.st = AUTHED;
      else if (cmd == "NEGOTIATE_UNIX_FD") M.expect = M.fd_possible ? "AGREE_UNIX_FD" : "ERROR";
      else if (cmd == "CANCEL" || cmd == "ERROR") M.rejected();
      else M.expect = "ERROR";
    }
    // ---- feed the line in chunks; bytes after BEGIN ride along in the same buffer
    std::string wire = line + "\r\n";
    if (M.st == AUTHED && f.ConsumeBool()) { tail_after_begin = f.ConsumeBool() ? std::string("l\1\0\1", 4) : "junk-after-begin"; wire += tail_after_begin; }
    std::string out;
    size_t pos = 0;
    int cm = (int)pick(f, 4);
    while (pos < wire.size()) {
      size_t n = cm == 0 ? wire.size() : cm == 1 ? 1 : 1 + pick(f, 9);
      if (wire.size() > 2000) n = 4096;
      if (n > wire.size() - pos) n = wire.size() - pos;
      DBusString* buf; _dbus_auth_get_buffer(auth, &buf);
      dbus_bool_t ok = _dbus_string_append_len(buf, wire.data() + pos, (int)n);
      _dbus_auth_return_buffer(auth, buf);
      if (!ok) { _dbus_auth_unref(auth); return 0; }
      pos += n;
      as = run_work(&out);
      if (as == DBUS_AUTH_STATE_WAITING_FOR_MEMORY) { _dbus_auth_unref(auth); return 0; }
      if (as == DBUS_AUTH_STATE_NEED_DISCONNECT || as == DBUS_AUTH_STATE_AUTHENTICATED) { if (as == DBUS_AUTH_STATE_AUTHENTICATED && pos < wire.size()) { /* a real transport stops feeding the handshake object here */ tail_after_begin = tail_after_begin.substr(0, tail_after_begin.size() - (wire.size() - pos)); } break; }
    }
    g_log.push_back("S: " + printable(out) + (M.st == DISC ? "   [model: disconnect]" : M.st == AUTHED ? "   [model: authenticated]" : "   [model expects " + (M.expect.empty() ? std::string("nothing") : M.expect) + "]"));
    // ---- compare
    if (M.st == DISC) {
      if (as != DBUS_AUTH_STATE_NEED_DISCONNECT) fail("disconnect-missing", "the model requires the server to give up here (BEGIN before authentication, 6 rejections, or over-long line) but its state is " + std::to_string((int)as));
      break;
    }
    if (as == DBUS_AUTH_STATE_NEED_DISCONNECT) fail("disconnect-spurious", "the server gave up although the specification's state machine continues");
    if (M.st == AUTHED) {
      if (as != DBUS_AUTH_STATE_AUTHENTICATED) fail("not-authenticated", "valid exchange + BEGIN but the server is not in the authenticated state");
      if (!out.empty()) fail("output-after-begin", "server produced output for BEGIN: " + printable(out));
      break;
    }
    if (as == DBUS_AUTH_STATE_AUTHENTICATED) fail("authenticated-without-valid-exchange", "the server reports AUTHENTICATED but the model has not seen a complete valid exchange followed by BEGIN");
    // exactly the expected response line
    std::vector<std::string> olines; { size_t p = 0; while (p < out.size()) { size_t e = out.find("\r\n", p); if (e == std::string::npos) { olines.push_back(out.substr(p)); break; } olines.push_back(out.substr(p, e - p)); p = e + 2; } }
    if (M.expect.empty()) { if (!olines.empty()) fail("unexpected-response", "no response expected but got: " + printable(out)); }
    else {
      if (olines.size() != 1) fail("response-count", "expected exactly one " + M.expect + " line, got " + std::to_string(olines.size()) + ": " + printable(out));
      std::string oc = olines[0].substr(0, olines[0].find(' '));
      if (oc != M.expect) fail("response-class", "expected " + M.expect + " but the server said: " + printable(olines[0]));
      if (oc == "REJECTED") {
        bool e1 = olines[0].find("EXTERNAL") != std::string::npos, e2 = olines[0].find("DBUS_COOKIE_SHA1") != std::string::npos, e3 = olines[0].find("ANONYMOUS") != std::string::npos;
        if (e1 != M.allow_ext || e2 != M.allow_cookie || e3 != M.allow_anon) fail("rejected-mechanism-list", "REJECTED lists '" + olines[0] + "' but the permitted mechanisms differ");
      }
      if (oc == "DATA" && M.mech == M_COOKIE) {
        std::string payload; size_t sp = olines[0].find(' ');
        if (sp == std::string::npos || !unhex(olines[0].substr(sp + 1), &payload)) fail("challenge-format", "cookie challenge is not hex: " + olines[0]);
        std::istringstream is(payload); std::string ctx, chal; long id;
        if (!(is >> ctx >> id >> chal)) fail("challenge-format", "cookie challenge is not 'context id challenge': " + printable(payload));
        M.ctx = ctx; M.cookie_id = id; M.schal = chal;
        if (cookie_for(ctx, id).empty()) fail("challenge-cookie-missing", "server named cookie " + std::to_string(id) + " of context " + ctx + " which is not in the keyring");
        { // the named cookie must be one the server may still hand out: not older than 5 minutes, not from the future (slack 5 s)
          std::ifstream in(g_home + "/.dbus-keyrings/" + ctx); std::string l2; long now = (long)time(nullptr);
          while (std::getline(in, l2)) { std::istringstream is2(l2); long i2, ts2; std::string c2; if ((is2 >> i2 >> ts2 >> c2) && i2 == id) {
            if (now - ts2 > 300 + 5) fail("stale-cookie-used", "the server challenges with cookie " + std::to_string(id) + " created " + std::to_string(now - ts2) + " s ago (cookies older than 300 s must not be handed out)");
            if (ts2 - now > 300 + 5) fail("future-cookie-used", "the server challenges with cookie " + std::to_string(id) + " dated " + std::to_string(ts2 - now) + " s in the future"); } }
        }
      }
      classes += oc[0];
    }
  }
  // ---- final identity / unused bytes
  if (M.st == AUTHED) {
    DBusCredentials* idc = _dbus_auth_get_identity(auth);
    bool anon = _dbus_credentials_are_anonymous(idc);
    if (M.auth_anon != anon) fail("identity-wrong", std::string("authenticated identity anonymous=") + (anon ? "yes" : "no") + " but the completed mechanism established " + (M.auth_anon ? "an anonymous identity" : "a uid"));
    if (!anon) {
      if (!_dbus_credentials_include(idc, DBUS_CREDENTIAL_UNIX_USER_ID) || _dbus_credentials_get_unix_uid(idc) != M.auth_uid) fail("identity-wrong", "authenticated uid " + std::to_string((unsigned long)_dbus_credentials_get_unix_uid(idc)) + " differs from the uid the mechanism established (" + std::to_string(M.auth_uid) + ")");
      if (M.mech == M_EXT && M.auth_uid != M.sock_uid) fail("identity-wrong", "EXTERNAL authenticated a uid other than the socket's");
    }
    const DBusString* ub; _dbus_auth_get_unused_bytes(auth, &ub);
    std::string unused(_dbus_string_get_const_data(ub), _dbus_string_get_length(ub));
    if (unused != tail_after_begin) fail("unused-bytes", "bytes after BEGIN: handed over '" + printable(unused) + "' expected '" + printable(tail_after_begin) + "'");
  }
  // (_dbus_auth_get_identity is only meaningful once authenticated: callers in dbus-transport.c respect that)
  if (M.st == AUTHED) stats_class(std::string("authenticated-via:") + (M.mech == M_EXT ? "EXTERNAL" : M.mech == M_COOKIE ? "DBUS_COOKIE_SHA1" : "ANONYMOUS"));
  stats_class(M.st == AUTHED ? "end:authenticated" : M.st == DISC ? "end:disconnect" : "end:incomplete");
  stats_class(std::string("creds:") + (M.have_creds ? "uid" + std::to_string(M.sock_uid) : "none"));
  if (reached) { uint64_t h = fnv1a(classes.data(), classes.size(), 1469598103934665603ull ^ (uint64_t)(mk * 8 + credk)); std::string key; for (auto& l : g_log) if (l[0] == 'C') key += l.substr(0, 24) + "|"; h = fnv1a(key.data(), key.size(), h); stats_nontrivial(h); if (stats_want_sample(h)) { std::string s; for (auto& l : g_log) s += l + " / "; stats_sample(h, s); } }
  _dbus_auth_unref(auth);
  return 0;
}
