// C19 (bus part) — auto-started services get held messages once, in order, or
// every waiting caller gets exactly one error.
// In-process bus with a generated <servicedir>; activatable names whose Exec is
// the scripted service process tools/vp_service.cc with a generated behaviour:
// takes the name at once / only when the harness says so / never / takes another
// name / exits with a status before or after connecting / is killed / cannot be
// executed.  2-3 senders auto-start and StartServiceByName the same and different
// names before, while and after the service comes up; virtual time passes beyond
// service_start_timeout.  Oracle: per-name model of the pending activation (list
// of waiting requests in arrival order, number of process starts).
#include "dbusx.h"
#include "gen.h"
#include "bushelp.h"
#include "stats.h"
#include <unistd.h>
#include <sys/stat.h>
#include <sys/wait.h>
#include <dirent.h>
#include <fstream>
#include <map>

using namespace vp;

static const long kStartTimeout = 7000;   // virtual ms
enum Beh { B_QUICK, B_SLOW, B_NEVER, B_WRONGNAME, B_EXIT0, B_EXIT3, B_EXIT_AFTER_CONNECT, B_KILLED, B_NOEXEC, B_N };
static const char* const kBeh[] = {"takes-name-at-once", "takes-name-on-go", "never-takes-name", "takes-other-name", "exits-0", "exits-3", "connects-then-exits", "killed", "exec-fails"};
static const char* const kNames[] = {"com.vp.act.A", "com.vp.act.B", "com.vp.act.C"};

struct Waiting { int sender; bool is_start; uint32_t serial; std::string token; };
struct Svc {
  Beh beh; std::vector<Waiting> waiting; int starts = 0; bool pending = false; bool running = false; bool released = false; long t0 = 0;
  std::vector<std::string> delivered;   // tokens the service must have logged, in order
};

static std::string g_dir;
static void rm_rf(const std::string& d) {
  DIR* dp = opendir(d.c_str()); if (!dp) return;
  while (struct dirent* e = readdir(dp)) { std::string n = e->d_name; if (n == "." || n == "..") continue; std::string p = d + "/" + n; struct stat st; if (lstat(p.c_str(), &st) == 0 && S_ISDIR(st.st_mode)) rm_rf(p); else unlink(p.c_str()); }
  closedir(dp); rmdir(d.c_str());
}
static std::vector<std::string> read_lines(const std::string& f) { std::vector<std::string> v; std::ifstream in(g_dir + "/" + f); std::string l; while (std::getline(in, l)) v.push_back(l); return v; }
static void write_file(const std::string& p, const std::string& s) { std::ofstream o(p); o << s; }

static std::pair<long, int> run_history(const uint8_t* data, size_t size, bool count) {
  FDP f(data, size);
  Hist h("C19");
  char buf[128]; snprintf(buf, sizeof buf, "/tmp/vp-c19-%d", (int)getpid()); g_dir = buf;
  rm_rf(g_dir); mkdir(g_dir.c_str(), 0755); mkdir((g_dir + "/services").c_str(), 0755);
  setenv("VP_STUB_DIR", g_dir.c_str(), 1);
  const char* bindir = getenv("VP_BIN"); std::string stub = std::string(bindir ? bindir : "/verif/build/bin") + "/vp_service";
  std::map<std::string, Svc> svc;
  int nnames = 1 + (int)pick(f, 3);
  for (int i = 0; i < nnames; i++) {
    Svc s; s.beh = (Beh)pick(f, B_N);
    std::string n = kNames[i];
    std::string script;
    switch (s.beh) {
      case B_QUICK: script = "connect\nown " + n + " 0\nserve\n"; break;
      case B_SLOW: script = "connect\nwait go." + n + "\nown " + n + " 0\nserve\n"; break;
      case B_NEVER: script = "connect\nwait never\n"; break;
      case B_WRONGNAME: script = "connect\nown com.vp.act.Other" + std::to_string(i) + " 0\nserve\n"; break;
      case B_EXIT0: script = "exit 0\n"; break;
      case B_EXIT3: script = "exit 3\n"; break;
      case B_EXIT_AFTER_CONNECT: script = "connect\nexit 0\n"; break;
      case B_KILLED: script = "kill\n"; break;
      default: break;
    }
    write_file(g_dir + "/" + n + ".script", script);
    write_file(g_dir + "/services/" + n + ".service", "[D-BUS Service]\nName=" + n + "\nExec=" + (s.beh == B_NOEXEC ? std::string("/nonexistent/vp/binary") : stub) + " " + n + "\n");
    svc[n] = s;
    h.log.push_back("service " + n + " " + kBeh[s.beh]);
  }
  BusLimits lim; lim.service_start_timeout = kStartTimeout;
  h.start(make_config("session", "", lim, "<servicedir>" + g_dir + "/services</servicedir>\n"));
  int nsend = 2 + (int)pick(f, 2);
  for (int i = 0; i < nsend; i++) h.add_client();
  int obs = h.add_client();
  uint32_t tok = 0;
  bool nontrivial = false;
  long now = 0;   // virtual ms

  auto drain_all = [&](std::map<int, std::vector<RecvFrame>>& got) { for (int c = 0; c < nsend; c++) { auto fr = h.bus.drain(c); for (auto& x : fr) { got[c].push_back(x); x.fds.clear(); } Bus::free_frames(fr); if (h.bus.client(c).eof) h.fail("disconnected", "sender client" + std::to_string(c) + " was disconnected"); } { auto g = h.bus.drain(obs); Bus::free_frames(g); } };
  std::map<int, std::vector<RecvFrame>> inbox;   // frames received by senders, not yet accounted for
  // wait (real time, bounded) until pred holds; the bus runs meanwhile
  auto wait_until = [&](const std::function<bool()>& pred, int real_ms) -> bool {
    for (int i = 0; i < real_ms * 2; i++) { h.bus.pump(); drain_all(inbox); if (pred()) return true; usleep(500); }
    return false;
  };
  auto take = [&](int c, uint32_t serial, RecvFrame* out) -> int {   // remove and count replies (return/error) to `serial` in c's inbox
    int n = 0; auto& v = inbox[c];
    for (size_t i = 0; i < v.size();) { if (v[i].valid && (v[i].msg.type == T_RETURN || v[i].msg.type == T_ERROR) && v[i].msg.fu32(F_REPLY_SERIAL) == serial) { if (n == 0 && out) *out = v[i]; n++; v.erase(v.begin() + i); } else i++; }
    return n;
  };
  auto count_starts = [&](const std::string& n) { int k = 0; for (auto& l : read_lines("starts.log")) if (l.rfind("start " + n + " ", 0) == 0) k++; return k; };
  auto owner_of = [&](const std::string& n) -> std::string { RecvFrame r; std::vector<RecvFrame> oth; sync_call(h.bus, obs, "GetNameOwner", {Value::str('s', n)}, &r, &oth); Bus::free_frames(oth); return r.valid && r.msg.type == T_RETURN && !r.msg.body.empty() ? r.msg.body[0].s : ""; };
  auto check_starts = [&](const std::string& n, Svc& s, const char* when) {
    if (s.beh == B_NOEXEC) return;
    if (!wait_until([&]() { return count_starts(n) >= s.starts; }, 10000)) h.fail("not-started", std::string("the service process for ") + n + " was not started " + when + " (expected " + std::to_string(s.starts) + " starts, log has " + std::to_string(count_starts(n)) + ")");
    if (count_starts(n) > s.starts) h.fail("started-twice", "the bus started " + n + " " + std::to_string(count_starts(n)) + " times " + when + " but only " + std::to_string(s.starts) + " activations were needed");
  };
  // every waiting request gets exactly one error; nothing was delivered
  auto expect_failure = [&](const std::string& n, Svc& s, const std::string& why) {
    std::vector<Waiting> w = s.waiting; s.waiting.clear(); s.pending = false;
    bool ok = wait_until([&]() { for (auto& x : w) { int k = 0; for (auto& fr : inbox[x.sender]) if (fr.valid && (fr.msg.type == T_ERROR || fr.msg.type == T_RETURN) && fr.msg.fu32(F_REPLY_SERIAL) == x.serial) k++; if (k == 0) return false; } return true; }, 10000);
    for (auto& x : w) {
      RecvFrame r; int k = take(x.sender, x.serial, &r);
      if (k == 0 || !ok) h.fail("waiter-not-answered", "client" + std::to_string(x.sender) + "'s " + (x.is_start ? "StartServiceByName" : "auto-starting call") + " (serial " + std::to_string(x.serial) + ") for " + n + " got no error although " + why);
      if (k > 1) h.fail("waiter-answered-twice", "client" + std::to_string(x.sender) + " received " + std::to_string(k) + " replies for serial " + std::to_string(x.serial) + " (" + why + ")");
      if (r.msg.type != T_ERROR) h.fail("waiter-got-success", "client" + std::to_string(x.sender) + " received a successful reply for " + n + " although " + why + ": " + frame_brief(r.msg));
      if (r.msg.fstr(F_SENDER) != BUS_NAME) h.fail("error-not-from-bus", frame_brief(r.msg));
      h.log.push_back("  client" + std::to_string(x.sender) + " serial " + std::to_string(x.serial) + " <- " + r.msg.fstr(F_ERROR_NAME));
      if (count) stats_class("error:" + r.msg.fstr(F_ERROR_NAME));
    }
    if (!w.empty()) nontrivial = nontrivial || w.size() >= 2;
  };
  // the service took the name: waiting StartServiceByName callers get SUCCESS, held calls are delivered once, in order
  auto expect_success = [&](const std::string& n, Svc& s) {
    std::vector<Waiting> w = s.waiting; s.waiting.clear(); s.pending = false; s.running = true;
    for (auto& x : w) if (!x.is_start) s.delivered.push_back(x.token);
    bool ok = wait_until([&]() { for (auto& x : w) { int k = 0; for (auto& fr : inbox[x.sender]) if (fr.valid && (fr.msg.type == T_ERROR || fr.msg.type == T_RETURN) && fr.msg.fu32(F_REPLY_SERIAL) == x.serial) k++; if (k == 0) return false; } return true; }, 10000);
    for (auto& x : w) {
      RecvFrame r; int k = take(x.sender, x.serial, &r);
      if (k == 0 || !ok) h.fail("waiter-not-answered", "client" + std::to_string(x.sender) + "'s request (serial " + std::to_string(x.serial) + ") for " + n + " got no reply after the service took the name");
      if (k > 1) h.fail("waiter-answered-twice", "client" + std::to_string(x.sender) + " received " + std::to_string(k) + " replies for serial " + std::to_string(x.serial));
      if (r.msg.type != T_RETURN) h.fail("waiter-got-error", "client" + std::to_string(x.sender) + " received " + frame_brief(r.msg) + " although the service took the name " + n);
      if (x.is_start) { if (r.msg.fstr(F_SENDER) != BUS_NAME || r.msg.body.size() != 1 || r.msg.body[0].u != 1) h.fail("start-reply", "StartServiceByName reply should be SUCCESS(1) from the bus: " + frame_brief(r.msg)); }
      else { if (r.msg.body.size() != 1 || r.msg.body[0].s != x.token) h.fail("wrong-answer", "held call answered with the wrong payload: " + frame_brief(r.msg)); }
    }
    if (w.size() >= 2) nontrivial = true;
  };
  auto check_delivered = [&](const std::string& n, Svc& s) {
    std::vector<std::string> got;
    for (auto& l : read_lines("recv." + n + ".log")) { size_t p = l.rfind(' '); got.push_back(p == std::string::npos ? l : l.substr(p + 1)); }
    if (got != s.delivered) { std::string a, b; for (auto& x : got) a += x + " "; for (auto& x : s.delivered) b += x + " "; h.fail("delivery-order", "the service " + n + " received [" + a + "] but the held/direct messages in arrival order are [" + b + "]"); }
  };

  int nsteps = 2 + (int)pick(f, 10);
  for (int step = 0; step < nsteps; step++) {
    int k = (int)pick(f, 10);
    std::string n = kNames[pick(f, nnames)];
    Svc& s = svc[n];
    if (k <= 5) {
      // a request for n: auto-starting call, StartServiceByName, or a call with NO_AUTO_START
      int c = (int)pick(f, nsend);
      int kind = (int)pick(f, 6);   // 0-2 call, 3-4 StartServiceByName, 5 NO_AUTO_START call
      Waiting w; w.sender = c; w.token = "t" + std::to_string(++tok); w.is_start = kind == 3 || kind == 4;
      if (w.is_start) w.serial = h.bus.bus_call(c, "StartServiceByName", {Value::str('s', n), Value::basic('u', 0)});
      else w.serial = h.bus.call(c, n, "/act", "com.vp.Act", "Do", {Value::str('s', w.token)}, kind == 5 ? 2 : 0);
      h.log.push_back("client" + std::to_string(c) + (w.is_start ? " StartServiceByName(" + n + ")" : std::string(kind == 5 ? " calls (NO_AUTO_START) " : " calls ") + n + " token " + w.token) + " serial " + std::to_string(w.serial));
      h.bus.pump(); drain_all(inbox);
      if (s.running) {
        if (w.is_start) { RecvFrame r; if (!wait_until([&]() { for (auto& fr : inbox[c]) if (fr.valid && fr.msg.fu32(F_REPLY_SERIAL) == w.serial) return true; return false; }, 10000) || take(c, w.serial, &r) != 1 || r.msg.type != T_RETURN || r.msg.body.size() != 1 || r.msg.body[0].u != 2) h.fail("start-reply", "StartServiceByName for the running service " + n + " should answer ALREADY_RUNNING(2)"); }
        else { s.delivered.push_back(w.token); RecvFrame r; if (!wait_until([&]() { for (auto& fr : inbox[c]) if (fr.valid && fr.msg.fu32(F_REPLY_SERIAL) == w.serial) return true; return false; }, 10000) || take(c, w.serial, &r) != 1 || r.msg.type != T_RETURN || r.msg.body.size() != 1 || r.msg.body[0].s != w.token) h.fail("direct-call", "call to the running service " + n + " was not answered with its token"); }
        check_starts(n, s, "for a request to a running service");
        continue;
      }
      if (kind == 5) {
        // no auto start: an error at once (the implementation says NameHasNoOwner), nothing started, does not join a pending activation
        RecvFrame r; int got = take(c, w.serial, &r);
        if (got != 1 || r.msg.type != T_ERROR || r.msg.fstr(F_SENDER) != BUS_NAME) h.fail("no-auto-start", "a NO_AUTO_START call to the unowned name " + n + " should be answered with an error at once; got " + std::to_string(got) + " replies" + (got ? ": " + frame_brief(r.msg) : ""));
        check_starts(n, s, "after a NO_AUTO_START call");
        continue;
      }
      if (!s.pending) { s.pending = true; s.t0 = now; s.starts++; if (count) stats_class(std::string("activation:") + kBeh[s.beh]); }
      s.waiting.push_back(w);
      check_starts(n, s, "after a request joined the activation");
      // immediate outcomes
      if (s.beh == B_NOEXEC) expect_failure(n, s, "the service's executable does not exist");
      else if (s.beh == B_EXIT3 || s.beh == B_KILLED) expect_failure(n, s, std::string("the started process ") + kBeh[s.beh] + " without taking the name");
      else if (s.beh == B_EXIT0 || s.beh == B_EXIT_AFTER_CONNECT) {
        // [D bus/activation.c pending_activation_finished_cb] exit status 0 is ignored (the program may have daemonized): the waiters get
        // their error when the start timeout passes at the latest; an earlier error is accepted as well
        bool early = wait_until([&]() { for (auto& x : s.waiting) for (auto& fr : inbox[x.sender]) if (fr.valid && fr.msg.type == T_ERROR && fr.msg.fu32(F_REPLY_SERIAL) == x.serial) return true; return false; }, 150);
        if (early) expect_failure(n, s, std::string("the started process ") + kBeh[s.beh] + " without taking the name");
      }
      else if (s.beh == B_QUICK || (s.beh == B_SLOW && s.released)) { if (!wait_until([&]() { return !owner_of(n).empty(); }, 10000)) h.fail("harness", "service stub did not take the name within 10 s"); expect_success(n, s); check_delivered(n, s); }
    } else if (k <= 7) {
      // the slow service is told to take the name now
      if (s.beh != B_SLOW || !s.pending || s.released) continue;
      s.released = true;
      h.log.push_back("harness lets " + n + " take its name");
      write_file(g_dir + "/go." + n, "go");
      if (!wait_until([&]() { return !owner_of(n).empty(); }, 10000)) h.fail("harness", "slow service stub did not take the name within 10 s of being released");
      expect_success(n, s); check_delivered(n, s);
      if (count) stats_class("released-with-waiters");
    } else {
      // virtual time passes: an activation fails exactly when service_start_timeout has elapsed since it began
      long ms = k == 8 ? kStartTimeout + 1 : kStartTimeout / 3;
      h.log.push_back("time +" + std::to_string(ms) + " ms");
      now += ms; vclock_advance(ms);
      h.bus.pump(); drain_all(inbox);
      for (auto& kv : svc) if (kv.second.pending && !kv.second.running && now - kv.second.t0 > kStartTimeout) { expect_failure(kv.first, kv.second, "the start timeout passed"); if (count) stats_class("timeout-with-waiters"); }
    }
  }
  // end: let everything pending time out, check final delivery logs and that no sender holds an unexplained reply
  now += 2 * kStartTimeout + 2; vclock_advance(2 * kStartTimeout + 2);
  for (auto& kv : svc) if (kv.second.pending && !kv.second.running) expect_failure(kv.first, kv.second, "the start timeout passed");
  h.bus.pump(); drain_all(inbox);
  for (auto& kv : svc) { if (kv.second.running) check_delivered(kv.first, kv.second); check_starts(kv.first, kv.second, "at the end"); }
  for (auto& kv : inbox) for (auto& fr : kv.second) if (fr.valid && (fr.msg.type == T_RETURN || fr.msg.type == T_ERROR)) h.fail("unexplained-reply", "client" + std::to_string(kv.first) + " holds a reply nobody is waiting for: " + frame_brief(fr.msg));
  for (auto& kv : inbox) Bus::free_frames(kv.second);
  if (count) {
    stats_class(nontrivial ? "nontrivial" : "trivial");
    if (nontrivial) { uint64_t hk = fnv1a(h.key().data(), h.key().size()); stats_nontrivial(hk); if (stats_want_sample(hk)) stats_sample(hk, h.sample()); }
  }
  auto r = h.finish();
  // reap whatever the bus left behind and remove the scratch directory
  while (waitpid(-1, nullptr, WNOHANG) > 0) {}
  rm_rf(g_dir);
  return r;
}

extern "C" int LLVMFuzzerTestOneInput(const uint8_t* data, size_t size) {
  stats_init("C19");
  stats_exec();
  auto r = run_history(data, size, true);
  if (r.first != 0 || r.second != 0) {
    auto r2 = run_history(data, size, false);
    if (r2.first != 0) violation("leak", "libdbus allocations outstanding after bus shutdown (repeatable): " + std::to_string(r2.first));
    if (r2.second != 0) violation("fd-leak", "descriptors still open after bus shutdown (repeatable): " + std::to_string(r2.second));
  }
  return 0;
}

#ifdef VP_ENUM
int main(int argc, char** argv) { return vp::enum_main(argc, argv); }
#endif
