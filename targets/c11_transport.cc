// C11 (transport level) — framing is independent of chunking also across the
// handshake-to-message boundary.  A server-side DBusConnection on a socketpair
// receives the client's handshake ("\0AUTH EXTERNAL <uid>\r\n[NEGOTIATE_UNIX_FD\r\n]
// BEGIN\r\n", pipelined) immediately followed by a stream of valid messages,
// optionally an invalid one and more bytes.  The whole byte sequence is written
// once in a single write (A) and once in generated chunks (B: any cut positions,
// one byte at a time, cuts inside "BEGIN\r\n", BEGIN and message bytes in the same
// write), with the connection reading and dispatching in between.  Dispatched
// messages (re-marshalled), their order and the disconnect decision must agree
// between A and B and with the independent decoding of the message part.
#include "dbusx.h"
#include "gen.h"
#include "libwalk.h"
#include "stats.h"
extern "C" {
#include <dbus/dbus-transport.h>
#include <dbus/dbus-transport-socket.h>
#include <dbus/dbus-connection-internal.h>
}
#include <algorithm>
#include <fcntl.h>
#include <sys/socket.h>
#include <unistd.h>

using namespace vp;

struct Out { std::vector<std::string> frames; bool disconnected = false; bool authenticated = false; bool ok = true; bool closing = false; std::string server_text; };

static DBusHandlerResult on_msg(DBusConnection*, DBusMessage* m, void* ud) {
  Out* o = (Out*)ud;
  if (dbus_message_is_signal(m, DBUS_INTERFACE_LOCAL, "Disconnected")) { if (!o->closing) o->disconnected = true; return DBUS_HANDLER_RESULT_HANDLED; }
  if (o->closing) return DBUS_HANDLER_RESULT_HANDLED;
  std::string b; if (!lib_marshal(m, b)) o->ok = false;
  o->frames.push_back(b);
  return DBUS_HANDLER_RESULT_HANDLED;
}

static Out run(const std::string& bytes, const std::vector<size_t>& cuts) {
  Out o;
  int sp[2];
  if (socketpair(AF_UNIX, SOCK_STREAM | SOCK_CLOEXEC, 0, sp) < 0) { o.ok = false; return o; }
  fcntl(sp[0], F_SETFL, fcntl(sp[0], F_GETFL) | O_NONBLOCK);
  fcntl(sp[1], F_SETFL, fcntl(sp[1], F_GETFL) | O_NONBLOCK);
  DBusSocket s; s.fd = sp[1];
  DBusString guid; _dbus_string_init_const(&guid, "0123456789abcdef0123456789abcdef");
  DBusTransport* t = _dbus_transport_new_for_socket(s, &guid, nullptr);   // server side
  if (!t) { close(sp[0]); close(sp[1]); o.ok = false; return o; }
  DBusConnection* c = _dbus_connection_new_for_transport(t);
  _dbus_transport_unref(t);
  if (!c) { close(sp[0]); o.ok = false; return o; }
  dbus_connection_set_exit_on_disconnect(c, FALSE);
  dbus_connection_add_filter(c, on_msg, &o, nullptr);
  auto pump = [&]() {
    for (int i = 0; i < 6; i++) {
      dbus_connection_read_write(c, 0);
      int n = 0; while (dbus_connection_get_dispatch_status(c) == DBUS_DISPATCH_DATA_REMAINS && n++ < 1000) dbus_connection_dispatch(c);
      char buf[4096]; ssize_t r; while ((r = recv(sp[0], buf, sizeof buf, MSG_DONTWAIT)) > 0) o.server_text.append(buf, r);
    }
  };
  size_t pos = 0, ci = 0;
  while (pos < bytes.size()) {
    size_t end = bytes.size();
    while (ci < cuts.size() && cuts[ci] <= pos) ci++;
    if (ci < cuts.size()) end = cuts[ci];
    size_t off = pos;
    while (off < end) { ssize_t w = send(sp[0], bytes.data() + off, end - off, MSG_NOSIGNAL); if (w > 0) off += (size_t)w; else if (errno == EAGAIN) pump(); else break; }
    if (off < end) break;   // peer closed (after corruption): the rest cannot be written
    pos = end;
    pump();
  }
  pump();
  o.authenticated = dbus_connection_get_is_authenticated(c);
  if (!dbus_connection_get_is_connected(c)) o.disconnected = true;
  o.closing = true;   // what follows is the harness' own teardown
  close(sp[0]);
  pump();
  dbus_connection_remove_filter(c, on_msg, &o);
  dbus_connection_close(c);
  while (dbus_connection_dispatch(c) == DBUS_DISPATCH_DATA_REMAINS) {}
  dbus_connection_unref(c);
  return o;
}

extern "C" int LLVMFuzzerTestOneInput(const uint8_t* data, size_t size) {
  stats_init("C11");
  stats_exec();
  FDP f(data, size);
  // handshake
  char uid[32]; snprintf(uid, sizeof uid, "%u", (unsigned)getuid()); std::string hexuid; for (char* q = uid; *q; q++) { char h[4]; snprintf(h, sizeof h, "%02x", (unsigned char)*q); hexuid += h; }
  int hs = (int)pick(f, 3);
  std::string hand = std::string(1, '\0');
  if (hs == 0) hand += "AUTH EXTERNAL " + hexuid + "\r\nBEGIN\r\n";
  else if (hs == 1) hand += "AUTH EXTERNAL " + hexuid + "\r\nNEGOTIATE_UNIX_FD\r\nBEGIN\r\n";
  else hand += "AUTH EXTERNAL\r\nDATA " + hexuid + "\r\nBEGIN\r\n";
  // message stream
  MsgCfg mc; mc.g.allow_h = false; mc.allow_fds_field = false;
  std::string stream; std::vector<size_t> bounds; std::string desc;
  int n = 1 + (int)pick(f, 5);
  for (int i = 0; i < n; i++) {
    Msg m = gen_msg(f, mc);
    if (rare(f, 6)) { m.body.clear(); m.body.push_back(Value::str('s', std::string(1 + pick(f, 6000), 'B'))); m.fix_signature(); }
    m.del(F_UNIX_FDS);
    stream += encode_msg(m); bounds.push_back(stream.size()); desc += "[" + std::to_string(stream.size()) + "]";
  }
  bool invalid_tail = rare(f, 3);
  if (invalid_tail) {
    Msg m = gen_msg(f, mc); Layout lay; std::string b = encode_msg(m, &lay);
    std::string op = corrupt(f, b, lay); stream += b; desc += " +corrupt(" + op + ")";
    if (f.ConsumeBool()) { Msg m2 = gen_msg(f, mc); stream += encode_msg(m2); desc += " +valid-after"; }
  }
  std::string all = hand + stream;
  size_t H = hand.size();
  // partition of the whole sequence
  std::vector<size_t> cuts;
  int pmode = (int)pick(f, 6);
  switch (pmode) {
    case 0: for (size_t i = 1; i < all.size(); i++) cuts.push_back(i); break;                                  // one byte at a time
    case 1: for (size_t k = H - 7; k < H + 20 && k < all.size(); k++) if (rare(f, 2)) cuts.push_back(k); break;   // cuts inside "BEGIN\r\n" and the first fixed header
    case 2: cuts.push_back(H + 1 + pick(f, std::min<size_t>(stream.size(), 40))); break;                          // BEGIN and the first message bytes in the same write
    case 3: cuts.push_back(H); for (size_t b : bounds) cuts.push_back(H + b); break;                              // exactly at the boundaries
    case 4: { size_t step = 1 + pick(f, 48); for (size_t i = step; i < all.size(); i += step) cuts.push_back(i); break; }
    default: { size_t nc = pick(f, 30); for (size_t i = 0; i < nc; i++) cuts.push_back(pick(f, all.size())); break; }
  }
  std::sort(cuts.begin(), cuts.end());
  StreamResult R = decode_stream((const uint8_t*)stream.data(), stream.size(), 0);
  bool unspec = R.tail_unspec || R.may_corrupt;
  for (auto& fr : R.frames) if (fr.unspec) unspec = true;
  if (unspec && R.reason.rfind("KF:", 0) == 0) { if (kf_open("C16-unique-name-short")) kf_hit("C16-unique-name-short"); }
  Out A = run(all, {}), B = run(all, cuts);
  if (!A.ok || !B.ok) return 0;
  auto fail = [&](const char* kind, const std::string& what) {
    std::string cs; for (size_t x : cuts) cs += std::to_string(x) + ","; if (cs.size() > 300) cs = cs.substr(0, 300) + "...";
    violation(kind, what + "\nhandshake variant " + std::to_string(hs) + " (" + std::to_string(H) + " bytes) + stream " + desc + " len=" + std::to_string(stream.size()) + "\ncuts (offsets in handshake+stream): " + cs + "\nstream(hex)=" + hex(stream, 300));
  };
  if (!A.authenticated) { if (B.authenticated) fail("chunking-changes-auth", "the single-write run did not authenticate but the chunked run did"); return 0; }
  if (!B.authenticated) fail("chunking-changes-auth", "the chunked handshake did not authenticate; server said: " + B.server_text);
  if (A.frames.size() != B.frames.size()) fail("chunking-changes-frames", "single write: " + std::to_string(A.frames.size()) + " messages dispatched, chunked: " + std::to_string(B.frames.size()));
  for (size_t i = 0; i < A.frames.size(); i++) if (A.frames[i] != B.frames[i]) fail("chunking-changes-frames", "message #" + std::to_string(i) + " differs between the single-write and the chunked run");
  if (A.disconnected != B.disconnected) fail("chunking-changes-corruption", "disconnected: single write=" + std::to_string(A.disconnected) + " chunked=" + std::to_string(B.disconnected));
  if (!unspec) {
    if (B.frames.size() != R.frames.size()) fail("frames-vs-oracle", "connection dispatched " + std::to_string(B.frames.size()) + " messages, the independent decoder finds " + std::to_string(R.frames.size()) + " (" + R.reason + ")");
    for (size_t i = 0; i < B.frames.size(); i++) if (B.frames[i] != stream.substr(R.frames[i].off, R.frames[i].len)) fail("frame-bytes-differ", "message #" + std::to_string(i) + " is not the corresponding slice of the stream");
    if (R.final == St::Corrupt && !B.disconnected) fail("corruption-missed", "the stream is corrupt per specification (" + R.reason + ") but the connection stayed open");
    if (R.final == St::End && B.disconnected) fail("corruption-spurious", "a valid stream got the connection closed");
  }
  stats_class("t-partition:" + std::to_string(pmode));
  stats_class("t-handshake:" + std::to_string(hs));
  stats_class(std::string("t-tail:") + (invalid_tail ? "invalid" : "clean"));
  bool straddle = false; for (size_t x : cuts) if (x != H && x > H - 7 && x < H + 16) straddle = true;   // a cut inside "BEGIN\r\n" or inside the first fixed header
  bool same_write = true; for (size_t x : cuts) if (x == H) same_write = false;   // no cut exactly at the boundary: BEGIN's last byte and the first message byte share a write
  bool nontrivial = (straddle || same_write) && n >= 1;
  stats_class(nontrivial ? "nontrivial" : "trivial");
  if (nontrivial) { std::string key = all; for (size_t x : cuts) { key += (char)(x & 255); key += (char)(x >> 8); } uint64_t h = fnv1a(key.data(), key.size()); stats_nontrivial(h); if (stats_want_sample(h)) { std::string cs; for (size_t x : cuts) cs += std::to_string(x) + ","; stats_sample(h, "handshake " + std::to_string(hs) + " (" + std::to_string(H) + "B) + " + desc + " cuts " + cs.substr(0, 200) + " -> " + std::to_string(B.frames.size()) + " messages" + (B.disconnected ? ", disconnected" : "")); } }
  dbus_shutdown();
  return 0;
}
