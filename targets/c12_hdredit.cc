// C12 — header edits keep a message valid and touch nothing else.
// Case = initial message (locally built, or demarshalled from an independent
// encoding with fields in any order / unknown fields / either byte order) plus a
// sequence of header edits.  After every edit the marshalled form is decoded by
// wire.cc and compared with a field-list model; accessors are compared too.
#include "dbusx.h"
#include "gen.h"
#include "libwalk.h"
#include "stats.h"
#include <cstring>
#include <cstdlib>

using namespace vp;

struct Ctx { std::string desc; std::vector<std::string> steps; };

static void fail(const char* kind, const Ctx& c, const std::string& what, const std::string& bytes = "") {
  std::string s;
  for (auto& st : c.steps) s += "  " + st + "\n";
  violation(kind, what + "\ninitial: " + c.desc + "\nedits:\n" + s + (bytes.empty() ? "" : "marshalled(hex)=" + hex(bytes, 320)));
}

static bool mandatory_present(const Msg& m) {
  switch (m.type) {
    case T_CALL: return m.has(F_PATH) && m.has(F_MEMBER);
    case T_SIGNAL: return m.has(F_PATH) && m.has(F_INTERFACE) && m.has(F_MEMBER);
    case T_ERROR: return m.has(F_ERROR_NAME) && m.has(F_REPLY_SERIAL);
    case T_RETURN: return m.has(F_REPLY_SERIAL);
    default: return true;
  }
}

// compare decoded fields with the model: same multiset; relative order of all fields other than `edited` preserved
static std::string cmp_fields(const Msg& got, const Msg& model, int edited) {
  std::vector<const Field*> a, b;
  for (auto& f : got.fields) if (f.code != edited) a.push_back(&f);
  for (auto& f : model.fields) if (f.code != edited) b.push_back(&f);
  if (a.size() != b.size()) return "number of untouched fields changed: got " + std::to_string(a.size()) + " model " + std::to_string(b.size());
  for (size_t i = 0; i < a.size(); i++) if (a[i]->code != b[i]->code || !(a[i]->v == b[i]->v)) return "untouched field #" + std::to_string(i) + " differs: got " + std::to_string(a[i]->code) + "=" + a[i]->v.show(80) + " model " + std::to_string(b[i]->code) + "=" + b[i]->v.show(80);
  if (edited > 0) {
    int ng = 0, nm = 0; const Value* gv = nullptr; const Value* mv = nullptr;
    for (auto& f : got.fields) if (f.code == edited) { ng++; gv = &f.v; }
    for (auto& f : model.fields) if (f.code == edited) { nm++; mv = &f.v; }
    if (ng != nm) return "edited field " + std::to_string(edited) + " occurs " + std::to_string(ng) + " times, model " + std::to_string(nm);
    if (gv && !(*gv == *mv)) return "edited field " + std::to_string(edited) + " reads " + gv->show(80) + " expected " + mv->show(80);
  }
  return "";
}

extern "C" int LLVMFuzzerTestOneInput(const uint8_t* data, size_t size) {
  stats_init("C12");
  stats_exec();
  FDP f(data, size);
  Ctx cx;
  // ---- initial message
  MsgCfg mc; mc.g.allow_h = false; mc.g.max_depth = 3; mc.max_body_vals = 3; mc.allow_fds_field = false;
  Msg model = gen_msg(f, mc);
  bool from_wire = !rare(f, 3);
  DBusMessage* m = nullptr;
  if (from_wire) {
    std::string enc = encode_msg(model);
    char* cp = (char*)aligned_alloc(8, (enc.size() + 8) & ~(size_t)7); memcpy(cp, enc.data(), enc.size());
    DBusError e; dbus_error_init(&e);
    m = dbus_message_demarshal(cp, (int)enc.size(), &e);
    free(cp);
    dbus_error_free(&e);
    if (!m) return 0;  // (C01 decides acceptance; OOM possible)
    cx.desc = "wire " + model.show().substr(0, 500);
  } else {
    // locally built: canonical constructor order
    if (model.type > 4) model.type = 1 + model.type % 4;
    m = dbus_message_new(model.type);
    if (!m) return 0;
    Msg built; built.type = model.type; built.serial = model.serial; built.be = false;
    bool ok = true;
    for (auto& fl : model.fields) {
      switch (fl.code) {
        case F_PATH: ok = ok && dbus_message_set_path(m, fl.v.s.c_str()); break;
        case F_INTERFACE: ok = ok && dbus_message_set_interface(m, fl.v.s.c_str()); break;
        case F_MEMBER: ok = ok && dbus_message_set_member(m, fl.v.s.c_str()); break;
        case F_ERROR_NAME: ok = ok && dbus_message_set_error_name(m, fl.v.s.c_str()); break;
        case F_REPLY_SERIAL: ok = ok && dbus_message_set_reply_serial(m, (dbus_uint32_t)fl.v.u); break;
        case F_DESTINATION: ok = ok && dbus_message_set_destination(m, fl.v.s.c_str()); break;
        case F_SENDER: ok = ok && dbus_message_set_sender(m, fl.v.s.c_str()); break;
        case F_CONTAINER_INSTANCE: ok = ok && dbus_message_set_container_instance(m, fl.v.s.c_str()); break;
        default: continue;
      }
      bool dup = false; for (auto& b : built.fields) if (b.code == fl.code) { b.v = fl.v; dup = true; }
      if (!dup) built.fields.push_back(fl);
    }
    dbus_message_set_serial(m, model.serial);
    DBusMessageIter it; dbus_message_iter_init_append(m, &it);
    for (auto& v : model.body) ok = ok && lib_append(&it, v, false);
    if (!ok) { dbus_message_unref(m); return 0; }
    built.body = model.body;
    built.flags = (dbus_message_get_no_reply(m) ? 1 : 0) | (dbus_message_get_auto_start(m) ? 0 : 2);
    if (!built.body.empty()) { Field sg; sg.code = F_SIGNATURE; sg.v = Value::str('g', built.body_sig()); built.fields.push_back(sg); }
    model = built;
    cx.desc = "local " + model.show().substr(0, 500);
  }
  // establish the exact initial field order from the first marshal (the model then tracks edits)
  {
    std::string b0; if (!lib_marshal(m, b0)) { dbus_message_unref(m); return 0; }
    Msg d0; std::string why;
    Verdict v = decode_frame((const uint8_t*)b0.data(), b0.size(), -1, &d0, &why, 1u << 27, RELAX_MANDATORY);
    if (v != Verdict::Valid) { if (v == Verdict::Invalid) fail("initial-invalid", cx, "initial marshal not well-formed: " + why, b0); dbus_message_unref(m); return 0; }
    if (from_wire && b0 != encode_msg(model)) fail("initial-differs", cx, "marshal of an unedited received message differs from its input", b0);
    std::string c = cmp_fields(d0, model, -1);
    if (!c.empty() && from_wire) fail("initial-differs", cx, c, b0);
    model.fields = d0.fields; model.flags = d0.flags; model.be = d0.be;
  }
  std::vector<Value> body0 = model.body;
  std::string sig0 = model.fstr(F_SIGNATURE);
  bool sig_present0 = model.has(F_SIGNATURE);

  // ---- edits
  int nedits = 1 + (int)pick(f, 12);
  bool nontrivial = false; int changes = 0;
  for (int e = 0; e < nedits; e++) {
    int op = (int)pick(f, 11);
    int edited = -1;
    std::string step;
    bool ok = true;
    auto set_or_del = [&](uint8_t code, char kind, char vt, dbus_bool_t (*fn)(DBusMessage*, const char*)) {
      edited = code;
      bool del = rare(f, 4);
      std::string v;
      if (!del) {
        size_t len = rare(f, 3) ? f.ConsumeIntegralInRange<size_t>(3, 255) : f.ConsumeIntegralInRange<size_t>(3, 40);
        v = gen_name_of_len(f, kind, len);
        if (kind == 'o' && rare(f, 6)) v = "/";
      }
      // is it a length-changing edit of a field that is not last?
      size_t idx = 0; bool found = false;
      for (; idx < model.fields.size(); idx++) if (model.fields[idx].code == code) { found = true; break; }
      if (found && idx + 1 < model.fields.size() && (del || model.fields[idx].v.s.size() != v.size())) nontrivial = true;
      ok = fn(m, del ? nullptr : v.c_str());
      step = "set field " + std::to_string(code) + (del ? " = NULL" : " = '" + (v.size() > 40 ? v.substr(0, 40) + "...(" + std::to_string(v.size()) + ")" : v) + "'");
      if (ok) { if (del) model.del(code); else model.set_str(code, vt, v); }
    };
    switch (op) {
      case 0: set_or_del(F_DESTINATION, f.ConsumeBool() ? 'b' : 'u', 's', dbus_message_set_destination); break;
      case 1: set_or_del(F_SENDER, f.ConsumeBool() ? 'b' : 'u', 's', dbus_message_set_sender); break;
      case 2: set_or_del(F_PATH, 'o', 'o', dbus_message_set_path); break;
      case 3: set_or_del(F_INTERFACE, 'i', 's', dbus_message_set_interface); break;
      case 4: set_or_del(F_MEMBER, 'm', 's', dbus_message_set_member); break;
      case 5: set_or_del(F_ERROR_NAME, 'i', 's', dbus_message_set_error_name); break;
      case 6: set_or_del(F_CONTAINER_INSTANCE, 'o', 'o', dbus_message_set_container_instance); break;
      case 7: { edited = F_REPLY_SERIAL; uint32_t r = 1 + f.ConsumeIntegral<uint32_t>() % 0xfffffffeu; ok = dbus_message_set_reply_serial(m, r); step = "set reply serial " + std::to_string(r); if (ok) model.set_u32(F_REPLY_SERIAL, r); break; }
      case 8: { ok = _dbus_message_remove_unknown_fields(m); step = "remove unknown fields"; if (ok) { size_t before = model.fields.size(); for (size_t i = 0; i < model.fields.size();) if (model.fields[i].code > 10) model.fields.erase(model.fields.begin() + i); else i++; if (before != model.fields.size()) nontrivial = true; } break; }
      case 9: { bool b = f.ConsumeBool(); dbus_message_set_no_reply(m, b); model.flags = (model.flags & ~1) | (b ? 1 : 0); step = std::string("set no_reply ") + (b ? "1" : "0"); break; }
      default: { bool b = f.ConsumeBool(); dbus_message_set_auto_start(m, b); model.flags = (model.flags & ~2) | (b ? 0 : 2); step = std::string("set auto_start ") + (b ? "1" : "0"); break; }
    }
    cx.steps.push_back(step + (ok ? "" : " -> FALSE (out of memory)"));
    changes++;
    // ---- checks after the edit
    std::string bytes;
    if (!lib_marshal(m, bytes)) break;
    Msg d; std::string why;
    Verdict v = decode_frame((const uint8_t*)bytes.data(), bytes.size(), -1, &d, &why, 1u << 27, RELAX_MANDATORY);
    if (v == Verdict::Invalid) fail("edited-malformed", cx, "marshal after edit is not well-formed: " + why, bytes);
    if (v != Verdict::Valid) break;
    if (mandatory_present(model)) {
      Verdict v2 = decode_frame((const uint8_t*)bytes.data(), bytes.size(), -1, nullptr, &why);
      if (v2 == Verdict::Invalid) fail("edited-invalid", cx, "all mandatory fields present but the message is invalid: " + why, bytes);
    }
    std::string c = cmp_fields(d, model, edited);
    if (!c.empty()) fail("fields-differ", cx, c, bytes);
    if (d.type != model.type || d.serial != model.serial) fail("fixed-header-changed", cx, "type or serial changed", bytes);
    if (d.flags != model.flags) fail("flags-differ", cx, "flags " + std::to_string(d.flags) + " model " + std::to_string(model.flags), bytes);
    if (d.has(F_SIGNATURE) != sig_present0 || d.fstr(F_SIGNATURE) != sig0) fail("signature-changed", cx, "signature field changed", bytes);
    if (d.body.size() != body0.size()) fail("body-changed", cx, "number of body values changed", bytes);
    for (size_t i = 0; i < body0.size(); i++) if (!(d.body[i] == body0[i])) fail("body-changed", cx, "body value " + std::to_string(i) + " changed: " + d.body[i].show(120) + " was " + body0[i].show(120), bytes);
    // the message keeps its byte order unless read through the iterator; field order for the next step = what is on the wire now
    model.fields = d.fields; model.be = d.be;
    // accessors
    Msg lm; std::string w2;
    bool walk_body = rare(f, 3);
    if (walk_body) { if (!lib_to_msg(m, lm, &w2)) fail("readback-inconsistent", cx, w2, bytes); std::string dd = diff_msgs(lm, d); if (!dd.empty()) fail("accessor-differs", cx, dd, bytes); }
    else {
      auto chk = [&](uint8_t code, const char* got) { const Value* mv = model.field(code); if ((got != nullptr) != (mv != nullptr) || (got && mv->s != got)) fail("accessor-differs", cx, "accessor for field " + std::to_string(code) + " returns " + (got ? std::string("'") + got + "'" : std::string("NULL")) + " model " + (mv ? mv->s : std::string("absent")), bytes); };
      chk(F_PATH, dbus_message_get_path(m)); chk(F_INTERFACE, dbus_message_get_interface(m)); chk(F_MEMBER, dbus_message_get_member(m));
      chk(F_ERROR_NAME, dbus_message_get_error_name(m)); chk(F_DESTINATION, dbus_message_get_destination(m)); chk(F_SENDER, dbus_message_get_sender(m));
      chk(F_CONTAINER_INSTANCE, dbus_message_get_container_instance(m));
      if (dbus_message_get_reply_serial(m) != model.fu32(F_REPLY_SERIAL)) fail("accessor-differs", cx, "reply serial accessor", bytes);
    }
  }
  stats_class(from_wire ? (model.be ? "init:wire-BE" : "init:wire-LE") : "init:local");
  stats_class("edits:" + std::to_string(changes > 6 ? 6 : changes));
  if (nontrivial && changes >= 2) {
    std::string key = cx.desc; for (auto& s : cx.steps) key += "|" + s;
    uint64_t h = fnv1a(key.data(), key.size());
    stats_nontrivial(h);
    if (stats_want_sample(h)) { std::string s = cx.desc.substr(0, 300) + " EDITS:"; for (auto& st : cx.steps) s += " [" + st + "]"; stats_sample(h, s); }
  }
  dbus_message_unref(m);
  return 0;
}
