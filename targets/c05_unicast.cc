// C05 — unicast messages reach exactly the current owner, once, in order.
// Histories of sends (all four types, to well-known / unique / unowned names),
// ownership operations and closes by 3-4 raw clients, issued one at a time or in
// batches written before the bus runs; recipients may read late.  Oracle: the
// bus model's routing under *some* serialisation of the batch that respects each
// client's own order (serialisation search).
#include "dbusx.h"
#include "gen.h"
#include "bushelp.h"
#include "stats.h"
#include <unistd.h>
#include <algorithm>

using namespace vp;

static const char* const kPool[] = {"com.vp.A", "com.vp.B"};

struct Op {
  int kind;            // 0 send, 1 RequestName, 2 ReleaseName, 3 close
  int c;
  Msg m;               // kind 0
  std::string name; uint32_t flags = 0; uint32_t serial = 0;
  std::string desc;
};

// apply one op to a model, producing expectations per client
static Msg driver_call_msg(const Op& op) {
  Msg m; m.type = T_CALL; m.serial = op.serial; m.set_str(F_PATH, 'o', BUS_PATH); m.set_str(F_DESTINATION, 's', BUS_NAME); m.set_str(F_INTERFACE, 's', BUS_IFACE);
  m.set_str(F_MEMBER, 's', op.kind == 1 ? "RequestName" : "ReleaseName");
  m.body = {Value::str('s', op.name)}; if (op.kind == 1) m.body.push_back(Value::basic('u', op.flags));
  m.fix_signature();
  return m;
}
static void apply(BusModel& model, const Op& op, Out& out) {
  std::string e;
  BusModel before = model;
  switch (op.kind) {
    case 0: model.route(op.c, op.m, out); before.add_optional_eavesdrop(out, -1, nullptr); break;
    case 1: model.request_name(op.c, op.name, op.flags, op.serial, out, &e); { Msg dc = driver_call_msg(op); before.add_optional_eavesdrop(out, op.c, &dc); } break;
    case 2: model.release_name(op.c, op.name, op.serial, out, &e); { Msg dc = driver_call_msg(op); before.add_optional_eavesdrop(out, op.c, &dc); } break;
    default: model.disconnect(op.c, out); model.add_optional_eavesdrop(out, -1, nullptr); break;
  }
}

static std::pair<long, int> run_history(const uint8_t* data, size_t size, bool count) {
  FDP f(data, size);
  Hist h("C05");
  BusLimits lim;
  h.start(make_config("session", "", lim));
  int nclients = 3 + (int)pick(f, 2);
  for (int i = 0; i < nclients; i++) h.add_client();
  int spy = -1, bystander = -1;
  if (f.ConsumeBool()) { spy = h.add_client(); h.add_rule(spy, "eavesdrop='true'"); }
  if (f.ConsumeBool()) { bystander = h.add_client(); h.add_rule(bystander, "type='signal'"); h.add_rule(bystander, "type='method_call'"); }
  // ordinary clients may hold rules too (some eavesdropping): the addressed recipient must still get exactly one copy
  { static const char* const rules[] = {"eavesdrop='true'", "type='signal'", "interface='com.vp.T'", "eavesdrop='true',member='Tok'", "eavesdrop='true',type='error'"};
    for (int i = 0; i < nclients; i++) if (rare(f, 3)) h.add_rule(i, rules[pick(f, 5)]); }
  int total = (int)h.bus.nclients();
  // initial owners
  h.own(0, kPool[0], (uint32_t)pick(f, 8));
  if (f.ConsumeBool()) h.own(1, kPool[1], (uint32_t)pick(f, 8));
  if (f.ConsumeBool()) h.own(1, kPool[0], (uint32_t)pick(f, 8));

  struct Cand { BusModel m; std::vector<std::vector<std::vector<Exp>>> pending; };   // a state the bus may be in + what late readers still have to receive
  std::vector<Cand> cands(1);
  cands[0].m = h.model; cands[0].pending.resize(total);
  std::vector<bool> lazy(total, false);
  uint32_t token = 0;
  bool nontrivial = false;
  int nsteps = 2 + (int)pick(f, 14);

  auto gen_op = [&](int c) {
    Op op; op.c = c;
    int k = (int)pick(f, 10);
    if (k <= 5) {
      op.kind = 0;
      Msg& m = op.m;
      m.type = 1 + (uint8_t)pick(f, 4);
      m.flags = (uint8_t)pick(f, 4);   // NO_REPLY_EXPECTED, NO_AUTO_START
      m.be = f.ConsumeBool();
      std::string dest;
      int dk = (int)pick(f, 8);
      if (dk <= 2) dest = kPool[pick(f, 2)];
      else if (dk <= 5) dest = h.uniq((int)pick(f, nclients));
      else if (dk == 6) dest = "com.vp.Unowned";
      else dest = h.uniq((int)pick(f, nclients));
      m.set_str(F_DESTINATION, 's', dest);
      if (m.type == T_CALL || m.type == T_SIGNAL) { m.set_str(F_PATH, 'o', "/t"); m.set_str(F_MEMBER, 's', "Tok"); }
      if (m.type == T_SIGNAL || f.ConsumeBool()) m.set_str(F_INTERFACE, 's', "com.vp.T");
      if (m.type == T_ERROR) m.set_str(F_ERROR_NAME, 's', "com.vp.Err");
      if (m.type == T_ERROR || m.type == T_RETURN) m.set_u32(F_REPLY_SERIAL, 1000 + (uint32_t)pick(f, 50));
      m.body.push_back(Value::str('s', "token-" + std::to_string(++token)));
      if (f.ConsumeBool()) m.body.push_back(Value::basic('u', token));
      m.fix_signature();
      m.serial = h.bus.client(c).serial++;
      op.desc = "client" + std::to_string(c) + " sends " + frame_brief(m);
    } else if (k <= 7) {
      op.kind = 1; op.name = kPool[pick(f, 2)]; op.flags = (uint32_t)pick(f, 8); op.serial = h.bus.client(c).serial++;
      op.desc = "client" + std::to_string(c) + " RequestName(" + op.name + "," + std::to_string(op.flags) + ")";
    } else if (k == 8) {
      op.kind = 2; op.name = kPool[pick(f, 2)]; op.serial = h.bus.client(c).serial++;
      op.desc = "client" + std::to_string(c) + " ReleaseName(" + op.name + ")";
    } else { op.kind = 3; op.desc = "client" + std::to_string(c) + " closes"; }
    return op;
  };
  auto write_op = [&](const Op& op) {
    switch (op.kind) {
      case 0: h.bus.send_bytes(op.c, encode_msg(op.m)); break;
      case 1: case 2: h.bus.send_bytes(op.c, encode_msg(driver_call_msg(op))); break;
      default: h.bus.close_client(op.c); break;
    }
  };

  for (int step = 0; step < nsteps; step++) {
    // only the observers (spy, bystander) read late
    if (rare(f, 5) && total > nclients) { int j = nclients + (int)pick(f, total - nclients); lazy[j] = !lazy[j]; h.log.push_back(std::string("client") + std::to_string(j) + (lazy[j] ? " stops reading" : " resumes reading")); }
    int bsize = rare(f, 2) ? 2 + (int)pick(f, 3) : 1;
    for (int j = 0; j < total; j++) if (lazy[j] && h.open(j)) bsize = 1;   // while somebody reads late, one operation at a time: otherwise the belief set grows with every ambiguous batch
    std::vector<Op> ops;
    for (int b = 0; b < bsize; b++) {
      int c = (int)pick(f, nclients);
      if (!h.open(c)) continue;
      bool closed_in_batch = false; for (auto& o : ops) if (o.c == c && o.kind == 3) closed_in_batch = true;
      if (closed_in_batch) continue;
      ops.push_back(gen_op(c));
    }
    if (ops.size() > 1) h.log.push_back("--- batch of " + std::to_string(ops.size()) + " written before the bus runs:");
    for (auto& op : ops) { h.log.push_back(op.desc); write_op(op); }
    if (!h.bus.pump()) h.fail("spin", "bus main loop did not become idle");
    std::vector<std::vector<RecvFrame>> got(total);
    for (int j = 0; j < total; j++) if (h.open(j) && !lazy[j]) { got[j] = h.bus.drain(j); }
    // belief-set update: every candidate state x every serialisation that respects per-client order
    std::vector<Cand> next; std::vector<std::string> seen;
    std::string first_diff; int tried = 0; bool overflow = false;
    for (auto& cand : cands) {
      std::vector<size_t> perm(ops.size()); for (size_t i = 0; i < perm.size(); i++) perm[i] = i;
      do {
        bool valid = true;
        for (size_t a = 0; a < perm.size() && valid; a++) for (size_t b = a + 1; b < perm.size(); b++) if (ops[perm[a]].c == ops[perm[b]].c && perm[a] > perm[b]) { valid = false; break; }
        if (!valid) continue;
        tried++;
        Cand n; n.m = cand.m; n.pending.resize(total);
        std::vector<std::vector<std::vector<Exp>>> groups(total);
        for (size_t a = 0; a < perm.size(); a++) { Out o; apply(n.m, ops[perm[a]], o); for (auto& kv : o) if (kv.first < total) groups[kv.first].push_back(kv.second); }
        bool all = true; std::string diff;
        for (int j = 0; j < total && all; j++) {
          if (!h.open(j)) continue;
          std::vector<std::vector<Exp>> gj = cand.pending[j]; gj.insert(gj.end(), groups[j].begin(), groups[j].end());
          if (lazy[j]) { n.pending[j] = gj; continue; }
          std::string d = match_groups(got[j], gj);
          if (!d.empty()) { all = false; diff = "client" + std::to_string(j) + " (" + h.uniq(j) + "): " + d + "\n  got:\n" + show_frames(got[j]) + "  want (one serialisation):\n" + [&] { std::string s; for (auto& g : gj) s += show_exps(g); return s; }(); }
        }
        if (!all) { if (first_diff.empty()) first_diff = diff; continue; }
        std::string fp = n.m.fingerprint(); for (int j = 0; j < total; j++) for (auto& g : n.pending[j]) { fp += "|" + std::to_string(j) + ":"; for (auto& e : g) fp += e.show(); }
        if (std::find(seen.begin(), seen.end(), fp) == seen.end()) { seen.push_back(fp); if (next.size() < 64) next.push_back(n); else overflow = true; }
      } while (std::next_permutation(perm.begin(), perm.end()));
    }
    if (overflow) { if (count) stats_class("belief-overflow"); return h.finish(); }   // too many indistinguishable states: no verdict for the rest of this history
    if (next.empty()) h.fail("no-serialisation-explains-observation", "none of the " + std::to_string(tried) + " (state, serialisation) candidates explains what the clients received; first difference:\n" + first_diff);
    for (int j = 0; j < total; j++) { if (h.open(j) && !lazy[j] && h.bus.client(j).eof && next[0].m.conns[j].alive) h.fail("disconnected", "client" + std::to_string(j) + " was disconnected by the bus"); Bus::free_frames(got[j]); }
    cands = next;
    h.model = cands[0].m;
    if (count) stats_class("candidates:" + std::to_string(cands.size() > 4 ? 4 : cands.size()));
    if (ops.size() >= 2) {
      for (auto& a : ops) if (a.kind == 0) for (auto& b : ops) if (&a != &b) {
        std::string dest = a.m.fstr(F_DESTINATION);
        if ((b.kind == 1 || b.kind == 2) && b.name == dest) nontrivial = true;
        if (b.kind == 3 && (h.uniq(b.c) == dest || dest[0] != ':')) nontrivial = true;
      }
    }
  }
  // late readers resume: some candidate must explain what accumulated
  {
    std::vector<std::vector<RecvFrame>> got(total);
    for (int j = 0; j < total; j++) if (h.open(j)) got[j] = h.bus.drain(j);
    std::vector<Cand> next; std::string first;
    for (auto& cand : cands) { bool all = true; for (int j = 0; j < total && all; j++) if (h.open(j)) { std::string d = match_groups(got[j], cand.pending[j]); if (!d.empty()) { all = false; if (first.empty()) first = "client" + std::to_string(j) + " (late reader): " + d + "\n  got:\n" + show_frames(got[j]); } } if (all) { Cand n = cand; n.pending.assign(total, {}); next.push_back(n); } }
    if (next.empty()) h.fail("slow-reader-frames-differ", first);
    for (int j = 0; j < total; j++) Bus::free_frames(got[j]);
    cands = next;
  }
  { std::vector<std::string> names(kPool, kPool + 2); int obs = h.bus.connect_raw(); if (!h.bus.auth(obs) || h.bus.hello(obs).empty()) h.fail("setup", "observer could not register");
    for (int j = 0; j < total; j++) if (h.open(j)) { auto fr = h.bus.drain(j); Bus::free_frames(fr); }
    std::string first; bool any = false;
    for (auto& cand : cands) { BusModel m2 = cand.m; int mo = m2.add_conn(); m2.conns[mo].registered = true; m2.conns[mo].unique = h.bus.client(obs).unique; std::string d = check_registry(h.bus, obs, m2, names); for (int j = 0; j < total; j++) if (h.open(j)) { auto fr = h.bus.drain(j); Bus::free_frames(fr); } if (d.empty()) { any = true; break; } if (first.empty()) first = d; }
    if (!any) h.fail("registry-differs", first + "\n(" + std::to_string(cands.size()) + " candidate states, none agrees)"); }
  if (count) { stats_class(nontrivial ? "nontrivial" : "trivial"); stats_class(spy >= 0 ? "spy" : "nospy"); }
  if (nontrivial && count) { std::string k = h.key(); uint64_t hh = fnv1a(k.data(), k.size()); stats_nontrivial(hh); if (stats_want_sample(hh)) stats_sample(hh, h.sample()); }
  return h.finish();
}

extern "C" int LLVMFuzzerTestOneInput(const uint8_t* data, size_t size) {
  stats_init("C05");
  stats_exec();
  auto r = run_history(data, size, true);
  if (r.first != 0 || r.second != 0) {
    auto r2 = run_history(data, size, false);
    if (r2.first != 0) violation("leak", "libdbus allocations outstanding after bus shutdown (repeatable): " + std::to_string(r2.first));
    if (r2.second != 0) violation("fd-leak", "descriptors still open after bus shutdown (repeatable): " + std::to_string(r2.second));
  }
  return 0;
}
