// C02 — built messages serialise to valid wire format and round-trip exactly.
// Case = a construction program over the public API.  Oracles: wire.cc accepts
// the marshalled bytes and decodes exactly the requested header/body; the body
// bytes equal wire.cc's own (canonical) encoding; demarshal + iterator walk gives
// the tree back and re-marshal is byte-identical; the other byte order changes no
// value; dbus_message_copy is equal with serial 0 and independent of the original.
#include "dbusx.h"
#include "gen.h"
#include "libwalk.h"
#include "stats.h"
#include <cstring>
#include <cstdlib>
#include <fcntl.h>
#include <unistd.h>
#include <map>

using namespace vp;

struct Prog {
  int ctor = 0;           // 0 call 1 signal 2 return 3 error 4 dbus_message_new(type)+setters
  int type = 1;
  std::map<uint8_t, std::string> sf;   // expected string fields
  uint32_t reply_serial = 0;
  uint8_t flags = 0;
  uint32_t serial = 1;
  std::vector<Value> body;
  std::vector<int> api;   // per top-level value: 0 iter append, 1 iter append with fixed arrays, 2 append_args (if basic/fixed array), 3 abandon-then-rewrite
  std::vector<int> setter_order;
  bool has_h = false;
  std::string desc;
};

static int g_devnull = -1;

static void fail(const char* kind, const Prog& p, const std::string& what, const std::string& bytes = "") {
  std::string b;
  for (auto& v : p.body) b += v.show(120) + " ";
  violation(kind, what + "\nprogram: " + p.desc + "\nbody: " + b + (bytes.empty() ? "" : "\nmarshalled(hex)=" + hex(bytes, 160)));
}

static bool has_h(const Value& v) { if (v.t == 'h') return true; if (v.t == 'a' && v.s.find('h') != std::string::npos) return true; for (auto& k : v.kids) if (has_h(k)) return true; return false; }

static void fix_h(Value& v) { if (v.t == 'h') v.u = (uint32_t)g_devnull; for (auto& k : v.kids) fix_h(k); }
// what the wire carries for 'h': the index into the fd array, assigned in append order
static void index_h(Value& v, uint32_t& next) { if (v.t == 'h') v.u = next++; for (auto& k : v.kids) index_h(k, next); }

static bool append_args_one(DBusMessage* m, const Value& v) {
  if (is_fixed_type(v.t)) {
    DBusBasicValue bv; memset(&bv, 0, sizeof bv);
    switch (v.t) { case 'y': bv.byt = (unsigned char)v.u; break; case 'n': case 'q': bv.u16 = (dbus_uint16_t)v.u; break; case 'x': case 't': case 'd': bv.u64 = v.u; break; default: bv.u32 = (dbus_uint32_t)v.u; }
    return dbus_message_append_args(m, (int)v.t, &bv, DBUS_TYPE_INVALID);
  }
  if (v.t == 's' || v.t == 'o' || v.t == 'g') { const char* s = v.s.c_str(); return dbus_message_append_args(m, (int)v.t, &s, DBUS_TYPE_INVALID); }
  if (v.t == 'a' && v.s.size() == 1 && is_fixed_type(v.s[0]) && v.s[0] != 'h') {
    int sz = fixed_size(v.s[0]);
    size_t n = v.kids.size();
    void* p = aligned_alloc(8, ((n * sz) + 8) & ~(size_t)7);
    for (size_t i = 0; i < n; i++) memcpy((char*)p + i * sz, &v.kids[i].u, sz);
    const void* cp = p;
    bool ok = dbus_message_append_args(m, DBUS_TYPE_ARRAY, (int)v.s[0], &cp, (int)n, DBUS_TYPE_INVALID);
    free(p);
    return ok;
  }
  if (v.t == 'a' && (v.s == "s" || v.s == "o" || v.s == "g")) {
    std::vector<const char*> ptrs; for (auto& k : v.kids) ptrs.push_back(k.s.c_str());
    const char** pp = ptrs.data(); static const char* none = nullptr; if (ptrs.empty()) pp = &none;
    return dbus_message_append_args(m, DBUS_TYPE_ARRAY, (int)v.s[0], &pp, (int)ptrs.size(), DBUS_TYPE_INVALID);
  }
  return false;
}
static bool append_args_ok(const Value& v) {
  if (is_basic_type(v.t) && v.t != 'h') return true;
  if (v.t == 'a' && v.s.size() == 1 && is_basic_type(v.s[0]) && v.s[0] != 'h') return true;
  return false;
}

static bool append_with_abandon(DBusMessageIter* it, const Value& v) {
  // DOC (dbus_message_iter_abandon_container): after abandoning, "the message is hosed and you have to start
  // over building the whole message" -- so the half-written container goes into a scratch message that is
  // then dropped (safety/leak check only); the real message gets the value normally.
  if (v.t == 'a' || v.t == '(' || v.t == 'v') {
    DBusMessage* scratch = dbus_message_new(DBUS_MESSAGE_TYPE_METHOD_CALL);
    if (scratch) {
      DBusMessageIter top, sub;
      dbus_message_iter_init_append(scratch, &top);
      std::string csig = v.t == 'a' ? v.s : v.t == 'v' ? v.kids[0].sig() : "";
      int ct = v.t == 'a' ? DBUS_TYPE_ARRAY : v.t == 'v' ? DBUS_TYPE_VARIANT : DBUS_TYPE_STRUCT;
      if (dbus_message_iter_open_container(&top, ct, v.t == '(' ? nullptr : csig.c_str(), &sub)) {
        if (v.t != 'v' && !v.kids.empty()) lib_append(&sub, v.kids[0], false);
        dbus_message_iter_abandon_container(&top, &sub);
      }
      dbus_message_unref(scratch);
    }
  }
  return lib_append(it, v, false);
}

static void gen_prog(FDP& f, Prog& p) {
  GenCfg g; g.allow_h = rare(f, 6); g.max_depth = 2 + (int)pick(f, 5); g.max_elems = 1 + (int)pick(f, 6); g.max_str = rare(f, 8) ? 300 : 20;
  p.ctor = (int)pick(f, 5);
  p.serial = rare(f, 4) ? f.ConsumeIntegral<uint32_t>() : 1 + (uint32_t)pick(f, 5000);
  if (!p.serial) p.serial = 1;
  switch (p.ctor) {
    case 0: p.type = T_CALL; p.sf[F_PATH] = gen_path(f); p.sf[F_MEMBER] = gen_member(f); if (f.ConsumeBool()) p.sf[F_DESTINATION] = f.ConsumeBool() ? gen_wellknown(f) : gen_unique(f); if (f.ConsumeBool()) p.sf[F_INTERFACE] = gen_iface(f); break;
    case 1: p.type = T_SIGNAL; p.sf[F_PATH] = gen_path(f); p.sf[F_INTERFACE] = gen_iface(f); p.sf[F_MEMBER] = gen_member(f); break;
    case 2: p.type = T_RETURN; p.reply_serial = 1 + (uint32_t)pick(f, 100000); if (f.ConsumeBool()) p.sf[F_DESTINATION] = gen_unique(f); break;
    case 3: p.type = T_ERROR; p.reply_serial = 1 + (uint32_t)pick(f, 100000); p.sf[F_ERROR_NAME] = gen_iface(f); if (f.ConsumeBool()) p.sf[F_DESTINATION] = gen_unique(f); break;
    default: p.type = 1 + (int)pick(f, 4); break;
  }
  // later setters (also for ctor 4: everything through setters)
  int ns = (int)pick(f, 6);
  for (int i = 0; i < ns; i++) p.setter_order.push_back((int)pick(f, 9));
  // body
  size_t nb = pick(f, 5);
  int shape = (int)pick(f, 16);
  std::string sig;
  if (shape == 15) { p.body.push_back(gen_deep_variant_chain(f, f.ConsumeIntegralInRange<int>(50, 64))); }
  else if (shape == 14) { p.body.push_back(gen_nested_array(f.ConsumeIntegralInRange<int>(28, 32), f.ConsumeBool())); }
  else if (shape == 13) {  // empty arrays of every element alignment, directly after a 1-byte value
    static const char* els[] = {"y", "n", "u", "x", "s", "(y)", "a{sv}", "ay", "v", "d", "g"};
    p.body.push_back(Value::basic('y', 1)); p.body.push_back(Value::array(els[pick(f, 11)])); p.body.push_back(Value::basic('y', 2));
  }
  else if (shape == 12) {  // long string / many elements
    p.body.push_back(Value::str('s', std::string(1 + pick(f, 70000), 'L')));
    Value a = Value::array("u"); size_t n = pick(f, 3000); for (size_t i = 0; i < n; i++) a.kids.push_back(Value::basic('u', (uint32_t)i * 2654435761u)); p.body.push_back(a);
  }
  else for (size_t i = 0; i < nb; i++) { std::string t = gen_sct(f, g, 0); if (sig.size() + t.size() > 200) break; sig += t; p.body.push_back(gen_value_of(f, g, t)); }
  for (auto& v : p.body) { if (has_h(v)) p.has_h = true; }
  for (size_t i = 0; i < p.body.size(); i++) p.api.push_back((int)pick(f, 5));   // 0 elements, 1 one fixed block, 2 append_args, 3 abandon+retry, 4 mixed elements/blocks
}

static DBusMessage* build(FDP& f, Prog& p) {
  DBusMessage* m = nullptr;
  auto S = [&](uint8_t c) -> const char* { auto it = p.sf.find(c); return it == p.sf.end() ? nullptr : it->second.c_str(); };
  DBusMessage* call = nullptr;
  if (p.ctor == 2 || p.ctor == 3) {
    call = dbus_message_new_method_call(nullptr, "/x", nullptr, "M");
    if (!call) return nullptr;
    dbus_message_set_serial(call, p.reply_serial);
    if (S(F_DESTINATION)) dbus_message_set_sender(call, S(F_DESTINATION));  // replies are addressed to the call's sender
  }
  switch (p.ctor) {
    case 0: m = dbus_message_new_method_call(S(F_DESTINATION), S(F_PATH), S(F_INTERFACE), S(F_MEMBER)); break;
    case 1: m = dbus_message_new_signal(S(F_PATH), S(F_INTERFACE), S(F_MEMBER)); break;
    case 2: m = dbus_message_new_method_return(call); break;
    case 3: m = dbus_message_new_error(call, S(F_ERROR_NAME), nullptr); break;
    default: m = dbus_message_new(p.type); break;
  }
  if (call) dbus_message_unref(call);
  if (!m) return nullptr;
  p.desc = "ctor=" + std::to_string(p.ctor) + " type=" + std::to_string(p.type);
  // flags: defaults
  if (p.ctor == 1 || p.ctor == 2 || p.ctor == 3) p.flags |= 1;  // DOC (dbus-message.c): signals and replies are created with NO_REPLY_EXPECTED set
  for (int s : p.setter_order) {
    bool ok = true;
    std::string v;
    switch (s) {
      case 0: v = f.ConsumeBool() ? gen_wellknown(f) : gen_unique(f); ok = dbus_message_set_destination(m, v.c_str()); if (ok) p.sf[F_DESTINATION] = v; break;
      case 1: v = gen_unique(f); ok = dbus_message_set_sender(m, v.c_str()); if (ok) p.sf[F_SENDER] = v; break;
      case 2: v = gen_path(f); ok = dbus_message_set_path(m, v.c_str()); if (ok) p.sf[F_PATH] = v; break;
      case 3: v = gen_iface(f); ok = dbus_message_set_interface(m, v.c_str()); if (ok) p.sf[F_INTERFACE] = v; break;
      case 4: v = gen_member(f); ok = dbus_message_set_member(m, v.c_str()); if (ok) p.sf[F_MEMBER] = v; break;
      case 5: v = gen_iface(f); ok = dbus_message_set_error_name(m, v.c_str()); if (ok) p.sf[F_ERROR_NAME] = v; break;
      case 6: { uint32_t r = 1 + (uint32_t)pick(f, 1000000); ok = dbus_message_set_reply_serial(m, r); if (ok) p.reply_serial = r; break; }
      case 7: { bool b = f.ConsumeBool(); dbus_message_set_no_reply(m, b); p.flags = (p.flags & ~1) | (b ? 1 : 0); bool a = f.ConsumeBool(); dbus_message_set_auto_start(m, a); p.flags = (p.flags & ~2) | (a ? 0 : 2); break; }
      default: { bool b = f.ConsumeBool(); dbus_message_set_allow_interactive_authorization(m, b); p.flags = (p.flags & ~4) | (b ? 4 : 0); break; }
    }
    p.desc += " set" + std::to_string(s) + (v.empty() ? "" : "=" + v);
    if (!ok) { dbus_message_unref(m); return nullptr; }  // OOM
  }
  if (p.ctor == 4) {
    // a message built from dbus_message_new() is complete only once the fields mandatory for its type are set
    auto need = [&](uint8_t c, const char* v, dbus_bool_t (*fn)(DBusMessage*, const char*)) { if (!p.sf.count(c)) { if (!fn(m, v)) return false; p.sf[c] = v; } return true; };
    bool ok = true;
    if (p.type == T_CALL || p.type == T_SIGNAL) ok = ok && need(F_PATH, "/need/ed", dbus_message_set_path) && need(F_MEMBER, "Needed", dbus_message_set_member);
    if (p.type == T_SIGNAL) ok = ok && need(F_INTERFACE, "need.ed", dbus_message_set_interface);
    if (p.type == T_ERROR) ok = ok && need(F_ERROR_NAME, "need.Err", dbus_message_set_error_name);
    if ((p.type == T_ERROR || p.type == T_RETURN) && !p.reply_serial) { ok = ok && dbus_message_set_reply_serial(m, 77); p.reply_serial = 77; }
    if (!ok) { dbus_message_unref(m); return nullptr; }
  }
  dbus_message_set_serial(m, p.serial);
  DBusMessageIter it;
  dbus_message_iter_init_append(m, &it);
  for (size_t i = 0; i < p.body.size(); i++) {
    Value v = p.body[i]; fix_h(v);
    bool ok;
    int api = p.api[i];
    if (api == 2 && append_args_ok(v)) { ok = append_args_one(m, v); dbus_message_iter_init_append(m, &it); }
    else if (api == 3) ok = append_with_abandon(&it, v);
    else ok = lib_append(&it, v, api == 1 ? 1 : api == 4 ? 2 : 0);
    p.desc += " api" + std::to_string(api);
    if (!ok) { dbus_message_unref(m); return nullptr; }
  }
  return m;
}

static void expect_header(const Prog& p, const Msg& got, const std::string& bytes, const char* where) {
  if (got.type != p.type) fail("header-differs", p, std::string(where) + ": type", bytes);
  if (got.serial != p.serial) fail("header-differs", p, std::string(where) + ": serial " + std::to_string(got.serial) + " != " + std::to_string(p.serial), bytes);
  if (got.flags != p.flags) fail("header-differs", p, std::string(where) + ": flags " + std::to_string(got.flags) + " != " + std::to_string(p.flags), bytes);
  for (uint8_t c = 1; c <= 10; c++) {
    if (c == F_SIGNATURE || c == F_UNIX_FDS) continue;
    const Value* v = got.field(c);
    if (c == F_REPLY_SERIAL) { uint32_t r = v ? (uint32_t)v->u : 0; if (r != p.reply_serial) fail("header-differs", p, std::string(where) + ": reply serial", bytes); continue; }
    auto it = p.sf.find(c);
    if ((v != nullptr) != (it != p.sf.end())) fail("header-differs", p, std::string(where) + ": presence of field " + std::to_string(c), bytes);
    if (v && v->s != it->second) fail("header-differs", p, std::string(where) + ": field " + std::to_string(c) + " = '" + v->s + "' expected '" + it->second + "'", bytes);
  }
  int count[256] = {0};
  for (auto& fl : got.fields) { if (++count[fl.code] > 1) fail("header-differs", p, std::string(where) + ": duplicate field", bytes); if (fl.code > 10) fail("header-differs", p, std::string(where) + ": unknown field emitted", bytes); }
}

extern "C" int LLVMFuzzerTestOneInput(const uint8_t* data, size_t size) {
  stats_init("C02");
  stats_exec();
  if (g_devnull < 0) g_devnull = open("/dev/null", O_RDONLY | O_CLOEXEC);
  FDP f(data, size);
  Prog p;
  gen_prog(f, p);
  DBusMessage* m = build(f, p);
  if (!m) return 0;
  std::vector<Value> want = p.body; { uint32_t idx = 0; for (auto& v : want) index_h(v, idx); }
  std::string wantsig; for (auto& v : want) wantsig += v.sig();

  std::string bytes;
  if (!lib_marshal(m, bytes)) { dbus_message_unref(m); return 0; }
  // (1) independent validator accepts
  Msg dec; std::string why;
  Verdict v = decode_frame((const uint8_t*)bytes.data(), bytes.size(), -1, &dec, &why);
  if (v == Verdict::Invalid) fail("marshal-invalid", p, "dbus_message_marshal output is not a valid message: " + why, bytes);
  bool counted = false;
  if (v == Verdict::Valid) {
    // (2) decoded header/body = requested
    expect_header(p, dec, bytes, "decoded marshal");
    if (dec.fstr(F_SIGNATURE) != wantsig) fail("signature-differs", p, "SIGNATURE field '" + dec.fstr(F_SIGNATURE) + "' expected '" + wantsig + "'", bytes);
    if (dec.body.size() != want.size()) fail("body-differs", p, "number of body values", bytes);
    for (size_t i = 0; i < want.size(); i++) if (!(dec.body[i] == want[i])) fail("body-differs", p, "body value " + std::to_string(i) + ": decoded " + dec.body[i].show() + " expected " + want[i].show(), bytes);
    // (3) canonical body bytes
    std::string mybody = encode_body(want, false);
    size_t hl = bytes.size() - mybody.size();
    if (mybody.size() > bytes.size() || bytes.compare(hl, std::string::npos, mybody) != 0) fail("body-bytes-differ", p, "body bytes differ from the canonical encoding; expected(hex)=" + hex(mybody, 160), bytes);
    // whole message equals the independent encoder's output for the decoded field order
    { Msg e = dec; e.be = false; if (encode_msg(e) != bytes) fail("bytes-differ", p, "marshal differs from independent encoding of the decoded message", bytes); }
    bool nontrivial = want.size() >= 2 || dec.fields.size() >= 3;
    for (auto& w : want) if (w.t == 'a' || w.t == '(' || w.t == 'v') nontrivial = true;
    if (nontrivial) {
      uint64_t h = fnv1a(bytes.data(), bytes.size());
      stats_nontrivial(h); counted = true;
      if (stats_want_sample(h)) stats_sample(h, p.desc + " => " + dec.show());
    }
    stats_class("ctor:" + std::to_string(p.ctor));
    for (int a : p.api) stats_class("api:" + std::to_string(a));
    stats_class(std::string("body:") + (want.empty() ? "empty" : p.has_h ? "with-fd" : want[0].depth() > 10 ? "deep" : "ordinary"));
    // (3b) the built message itself answers like its own marshalled form: accessors and iterator of the live object (and of a copy)
    //      against the oracle's decoding of the bytes ('h' values are compared as indices by diff_msgs)
    {
      Msg lm; std::string w2;
      if (!lib_to_msg(m, lm, &w2)) fail("readback-inconsistent", p, "live message: " + w2, bytes);
      std::string d = diff_msgs(lm, dec);
      if (!d.empty()) fail("built-message-accessors-differ", p, "the built message read through its accessors/iterator differs from its own marshalled form: " + d, bytes);
      DBusMessage* cpy = dbus_message_copy(m);
      if (cpy) {
        Msg lc; if (!lib_to_msg(cpy, lc, &w2)) fail("readback-inconsistent", p, "copy: " + w2, bytes);
        Msg dc = dec; dc.serial = 0;   // [D dbus_message_copy] the copy's serial is 0
        std::string d2 = diff_msgs(lc, dc);
        if (!d2.empty()) fail("copy-differs", p, "dbus_message_copy read through its accessors differs from the original: " + d2, bytes);
        dbus_message_unref(cpy);
      }
    }
    if (!p.has_h) {
      // (4) demarshal + walk + re-marshal
      char* cp = (char*)aligned_alloc(8, (bytes.size() + 8) & ~(size_t)7); memcpy(cp, bytes.data(), bytes.size());
      DBusError e; dbus_error_init(&e);
      DBusMessage* m2 = dbus_message_demarshal(cp, (int)bytes.size(), &e);
      free(cp);
      if (!m2 && !dbus_error_has_name(&e, DBUS_ERROR_NO_MEMORY)) fail("roundtrip-rejected", p, std::string("dbus_message_demarshal rejects dbus_message_marshal output: ") + (e.message ? e.message : ""), bytes);
      dbus_error_free(&e);
      if (m2) {
        std::string again;
        if (lib_marshal(m2, again) && again != bytes) fail("remarshal-differs", p, "re-marshal of the demarshalled message differs; got(hex)=" + hex(again, 160), bytes);
        Msg lm; std::string w2;
        if (!lib_to_msg(m2, lm, &w2)) fail("readback-inconsistent", p, w2, bytes);
        std::string d = diff_msgs(lm, dec);
        if (!d.empty()) fail("readback-differs", p, "demarshalled message read back through the iterator API: " + d, bytes);
        dbus_message_unref(m2);
      }
      // (5) other byte order changes no value
      Msg be = dec; be.be = true;
      std::string bebytes = encode_msg(be);
      cp = (char*)aligned_alloc(8, (bebytes.size() + 8) & ~(size_t)7); memcpy(cp, bebytes.data(), bebytes.size());
      dbus_error_init(&e);
      DBusMessage* m3 = dbus_message_demarshal(cp, (int)bebytes.size(), &e);
      free(cp);
      if (!m3 && !dbus_error_has_name(&e, DBUS_ERROR_NO_MEMORY)) fail("byteorder-rejected", p, std::string("big-endian encoding of the same message rejected: ") + (e.message ? e.message : ""), bebytes);
      dbus_error_free(&e);
      if (m3) {
        std::string asis;
        if (lib_marshal(m3, asis) && asis != bebytes) fail("remarshal-differs", p, "marshal of an unread big-endian message differs from its input", bebytes);
        Msg lm; std::string w2;
        if (!lib_to_msg(m3, lm, &w2)) fail("readback-inconsistent", p, "(big-endian) " + w2, bebytes);
        std::string d = diff_msgs(lm, dec);
        if (!d.empty()) fail("byteorder-changes-value", p, "big-endian message read back through the iterator API: " + d, bebytes);
        std::string after;
        if (lib_marshal(m3, after) && after != bytes) fail("byteswap-bytes-differ", p, "after in-place conversion the marshal differs from the native-order encoding; got(hex)=" + hex(after, 160), bytes);
        dbus_message_unref(m3);
      }
      // _dbus_marshal_byteswap on the body alone
      {
        std::string bebody = encode_body(want, true);
        DStr sig(wantsig), body(bebody);
        if (sig.ok && body.ok) {
          _dbus_marshal_byteswap(&sig.s, 0, DBUS_BIG_ENDIAN, DBUS_LITTLE_ENDIAN, &body.s, 0);
          std::string got(_dbus_string_get_const_data(&body.s), _dbus_string_get_length(&body.s));
          if (got != mybody) fail("byteswap-bytes-differ", p, "_dbus_marshal_byteswap(BE->LE) of the body differs from the LE encoding; got(hex)=" + hex(got, 160) + " want(hex)=" + hex(mybody, 160));
        }
      }
    }
    // (6) copy
    DBusMessage* c = dbus_message_copy(m);
    if (c) {
      if (dbus_message_get_serial(c) != 0) fail("copy-serial", p, "dbus_message_copy has non-zero serial");
      dbus_message_set_serial(c, p.serial);
      std::string cb;
      if (lib_marshal(c, cb) && cb != bytes) fail("copy-differs", p, "copy (serial restored) marshals differently; copy(hex)=" + hex(cb, 160), bytes);
      // independence: edit the original, the copy must not change
      dbus_message_set_member(m, "Changed"); { DBusMessageIter it; dbus_message_iter_init_append(m, &it); dbus_uint32_t x = 42; dbus_message_iter_append_basic(&it, 'u', &x); }
      std::string cb2;
      if (lib_marshal(c, cb2) && cb2 != cb) fail("copy-not-independent", p, "editing the original changed the copy");
      dbus_message_unref(c);
    }
  } else {
    stats_class("oracle:unspec");
  }
  (void)counted;
  dbus_message_unref(m);
  return 0;
}
